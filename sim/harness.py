"""Batch harness: seeded search over simulated Worlds, minimisation, replay files,
evidence, known findings.  See /verif/DESIGN.md sections 3.7 and 11."""
import concurrent.futures as cf
import faulthandler
import hashlib
import importlib
import json
import multiprocessing
import os
import random
import shutil
import subprocess
import sys
import tempfile
import time as _time
import traceback

VERIF = os.path.dirname(os.path.dirname(os.path.abspath(__file__)))
sys.path.insert(0, os.path.join(VERIF, 'sim'))
sys.path.insert(0, VERIF)

import numpy as np
import simworld                                   # noqa: E402
from simworld import World, Violation            # noqa: E402

_real_time = _time.time
_real_perf = _time.perf_counter

MONITOR_KINDS = ('deadlock', 'collective-mismatch', 'unmatched-collective', 'unmatched-message', 'buffer-mismatch',
                 'buffer-alias', 'buffer-overrun', 'h5-conflicting-writes', 'event-cap')
HARNESS_KINDS = ('harness-unsupported', 'harness-stuck-thread')

COMPONENTS = {
    'real': ['pygyro.model.layout', 'pygyro.model.grid', 'pygyro.model.process_grid',
             'pygyro.advection', 'pygyro.poisson', 'pygyro.diagnostics',
             'pygyro.initialisation', 'pygyro.utilities.savingTools', 'pygyro.splines',
             'fullSimulation.main', 'numpy', 'scipy', 'h5py (serial driver, real files)',
             'json/glob/os on a real scratch directory'],
    'stub': ['mpi4py.MPI (simulated: sim/shim/mpi4py/MPI.py)',
             "h5py 'mpio' driver (emulated collective open/create/close over serial h5py)",
             'time.time/perf_counter (virtual per-rank clock)',
             'numpy.empty/empty_like as called by pygyro (poisoned memory)'],
    'not_run': ['matplotlib plotters', 'numba/pythran copies', 'pyccel-compiled kernels'],
}


class OracleFail(Exception):
    """Raised by check code (inside a rank thread or in the post-run oracle) when
    the property under test does not hold."""

    def __init__(self, kind, detail=None):
        Exception.__init__(self, kind, detail)
        self.kind = kind
        self.detail = detail


class Skip(Exception):
    """The generated case is outside the input domain (consistently refused)."""


class SkipWorld(Skip):
    """Raised by one rank: the whole World is outside the input domain whatever the other ranks were doing
    (e.g. this job lost a race for a directory against another job and was refused loudly)."""


class HarnessProblem(Exception):
    """Something the harness itself cannot do with this tree (API it relies on is gone,
    a seam is no longer reached).  Reported as a harness error (exit 2), never as a violation."""


def case_seed(base, cid, i):
    h = hashlib.sha256(('%d:%s:%d' % (int(base), cid, int(i))).encode()).digest()
    return int.from_bytes(h[:6], 'big')


def jdump(x):
    return json.dumps(x, sort_keys=True, default=repr)


def case_key(case):
    c = {k: v for k, v in case.items() if k not in ('sched', 'seed', 'idx')}
    return hashlib.sha256(jdump(c).encode()).hexdigest()[:20]


# ---------------------------------------------------------------------------
# running one World
# ---------------------------------------------------------------------------
def execute(prop, nranks, sched, tape, rank_fn, post_fn=None):
    """Run rank_fn(comm, rank) on `nranks` simulated ranks and classify the outcome.

    rank_fn may raise OracleFail (violation of `prop`) or Skip; any other
    exception is a violation of `prop` too (the operation failed), monitor errors
    (deadlock, mismatch, ...) likewise - they are reported under the running
    check's property with the monitor class as `kind`.
    post_fn(world, results) runs in the calling thread after a clean run and may
    raise OracleFail / Skip; it returns a dict merged into the result
    (e.g. nontrivial, extra probes).
    """
    from mpi4py import MPI
    # bystanders: further ranks of the simulated job that are not part of the computation.  The ranks under
    # test get the communicator world.Split(...) instead of the world itself, so their rank in the world
    # differs from their rank in the communicator they were given, and any collective the library sends to
    # MPI.COMM_WORLD instead of that communicator meets ranks that never answer (deadlock / mismatch monitor)
    by = sorted(int(x) for x in (sched.get('bystanders') or []))
    while any(b >= nranks + len(by) for b in by):        # positions drawn for a larger World of the same case
        by = [b for b in by if b < nranks + len(by)]
    total = nranks + len(by)
    w = World(total, sched, tape)
    w.bystanders = tuple(by)

    def fn(r):
        if not by:
            return rank_fn(MPI.world_comm(w, r), r)
        wc = MPI.world_comm(w, r)
        if r in by:
            own = wc.Split(1, r)
            own.Barrier()
            return None
        sub = wc.Split(0, r)
        return rank_fn(sub, sub.Get_rank())
    res = dict(status='ok', prop=prop, kind=None, message=None, detail=None, nontrivial=True,
               finding_key=None)
    try:
        results = w.run(fn)
    except BaseException as e:   # noqa
        res.update(status='harness', kind='harness-exception', message=repr(e),
                   detail=traceback.format_exc())
        return _finish(res, w)
    if by:
        results = [x for r, x in enumerate(results) if r not in by]
        w.probe('bystander_ranks_in_world')
        w.count_fault('bystander-ranks', len(by))
    if w.job_aborted and w.error is None:
        res['status'] = 'aborted'
        return _finish(res, w, results)
    err = w.error
    if err is not None:
        if err.kind in HARNESS_KINDS:
            res.update(status='harness', kind=err.kind, message=str(err.detail))
        elif err.kind == 'exception':
            _classify_exception(res, w)
        else:
            res.update(status='violation', kind=err.kind, message=jdump(err.to_json())[:2000],
                       detail=err.to_json())
        return _finish(res, w, results)
    if post_fn is not None:
        try:
            extra = post_fn(w, results)
            if extra:
                res.update(extra)
        except OracleFail as e:
            res.update(status='violation', kind=e.kind, message=jdump(simworld._jsonable(e.detail))[:2000],
                       detail=simworld._jsonable(e.detail))
        except Skip as e:
            res.update(status='skip', kind='skip', message=str(e))
        except HarnessProblem as e:
            res.update(status='harness', kind='harness-api', message=str(e))
        except (TypeError, AttributeError, KeyError, IndexError) as e:
            # the oracle could not even read what the ranks returned: API drift, not a verdict
            res.update(status='harness', kind='harness-api', message=repr(e), detail=traceback.format_exc()[-2000:])
    return _finish(res, w, results)


def _classify_exception(res, w):
    excs = [(r, e) for r, e in enumerate(w.excs) if e is not None]
    types = {e[0] for _, e in excs}
    if 'SkipWorld' in types:
        res.update(status='skip', kind='skip', message=[e[1] for _, e in excs if e[0] == 'SkipWorld'][0])
        return
    if types == {'Skip'} and len(excs) == w.n - len(getattr(w, 'bystanders', ())):
        res.update(status='skip', kind='skip', message=excs[0][1][1])
        return
    if 'Skip' in types:
        res.update(status='violation', kind='inconsistent-refusal',
                   message='refused on ranks %r only' % [r for r, e in excs if e[0] == 'Skip'],
                   detail={str(r): e[:2] for r, e in excs})
        return
    r0, e0 = excs[0]
    for r, e in excs:
        if e[0] == 'OracleFail':
            r0, e0 = r, e
            break
    if e0[0] == 'HarnessProblem' or _harness_side(e0):
        res.update(status='harness', kind='harness-api', message=('rank %d: %s: %s' % (r0, e0[0], e0[1]))[:1500],
                   detail=dict(trace=e0[2][-2000:]))
        return
    if e0[0] == 'OracleFail':
        # message is "(kind, detail)"
        kind = 'oracle'
        try:
            kind = e0[3]
        except Exception:
            pass
        res.update(status='violation', kind=kind, message=('rank %d: ' % r0) + e0[1][:1800],
                   detail=dict(rank=r0, trace=e0[2][-1500:]))
    else:
        res.update(status='violation', kind='exception:' + e0[0],
                   message=('rank %d: %s: %s' % (r0, e0[0], e0[1]))[:1800],
                   detail=dict(rank=r0, ranks=[r for r, _ in excs], trace=e0[2][-2500:],
                               pending=simworld._jsonable(getattr(w.error, 'detail', None))))


def _harness_side(e):
    """True when a TypeError/AttributeError/NotImplementedError was raised *inside* the simulated MPI,
    the seams or the harness glue itself: the code under test used (or the harness relied on) an API
    the harness does not model.  That is a limitation of the harness, not a property violation."""
    if e[0] in ('OracleFail', 'Skip', 'SkipWorld', 'MPIUsageError'):
        return False
    frames = [ln for ln in e[2].splitlines() if ln.strip().startswith('File "')]
    if not frames:
        return False
    last = frames[-1]
    if '/verif/checks/' in last or '/verif/refs/' in last or '/sim/harness.py' in last:
        return True        # the harness glue itself failed (e.g. could not unpack what an API returned): any type
    if '/sim/shim/' in last or '/sim/seams.py' in last:
        # inside the simulated MPI / HDF5: errors that mimic what mpi4py or h5py raise for bad arguments are
        # MPIUsageError (violations); any other TypeError/AttributeError means the simulation does not model it
        return e[0] in ('TypeError', 'AttributeError', 'NotImplementedError', 'ImportError', 'ModuleNotFoundError',
                        'KeyError', 'IndexError')
    return False


def canon_digest(x):
    """Digest of a rank's returned value: numbers, arrays and structure; strings are left out (paths)."""
    h = hashlib.sha256()

    def feed(v):
        if isinstance(v, np.ndarray):
            h.update(str(v.dtype).encode() + repr(v.shape).encode())
            h.update(np.ascontiguousarray(v).tobytes())
        elif isinstance(v, dict):
            h.update(b'{')
            for k in sorted(v, key=repr):
                h.update(repr(k).encode())
                feed(v[k])
        elif isinstance(v, (list, tuple)):
            h.update(b'[')
            for y in v:
                feed(y)
            h.update(b']')
        elif isinstance(v, (bool, int, float, complex, np.generic)) or v is None:
            h.update(repr(v).encode())
        elif isinstance(v, (bytes, bytearray)):
            h.update(bytes(v))
        else:
            h.update(b'S')
    feed(x)
    return h.hexdigest()[:12]


def _finish(res, w, results=None):
    if w.sched.get('trace_payloads'):
        tr = {}
        for rec in w.log:
            if rec[3] == 'coll':
                tr.setdefault(int(rec[2]), []).append(hashlib.sha256(repr(rec[4:]).encode()).hexdigest()[:8] +
                                                      ':' + str(rec[6]))
        res['rank_traces'] = [{str(r): v for r, v in sorted(tr.items())}]
        res['result_digests'] = [[canon_digest(x) for x in (results or [])]]
    res['events'] = w.gseq
    res['sim_time'] = round(w.sim_time(), 6)
    res['digest'] = w.digest()
    res['order_digest'] = w.order_digest()
    res['rank_order_digest'] = w.rank_order_digest()
    res['faults'] = dict(w.fault_counts)
    p = dict(w.probes)
    p.update(res.get('probes') or {})
    res['probes'] = p
    res['tape'] = w.tape
    res['tape_len'] = len(w.tape)
    return res


class Multi:
    """A case made of several Worlds (e.g. the same job on several process grids,
    or a run followed by a restart).  Worlds run one after the other; the replay
    tape is the list of the Worlds' tapes."""

    def __init__(self, prop, tape=None):
        self.prop = prop
        self.tapes_in = tape
        self.parts = []

    def run(self, nranks, sched, rank_fn, post_fn=None):
        i = len(self.parts)
        t = None
        if self.tapes_in is not None:
            t = self.tapes_in[i] if i < len(self.tapes_in) else []
        sched = dict(sched)
        sched['seed'] = int(sched.get('seed', 0)) * 1000003 + i
        res = execute(self.prop, nranks, sched, t, rank_fn, post_fn)
        res['world'] = i
        self.parts.append(res)
        return res

    def failed(self):
        for p in self.parts:
            if p['status'] not in ('ok', 'aborted'):
                return p
        return None

    def finish(self, extra=None, oracle=None):
        """Merge the parts; `oracle()` (cross-World comparison) runs only when every part is ok."""
        bad = self.failed()
        res = dict(status='ok', prop=self.prop, kind=None, message=None, detail=None, nontrivial=True,
                   finding_key=None)
        if bad is not None:
            for k in ('status', 'kind', 'message', 'detail'):
                res[k] = bad[k]
            res['message'] = ('world %d: ' % bad['world']) + (bad['message'] or '')
        elif oracle is not None:
            try:
                ex = oracle()
                if ex:
                    res.update(ex)
            except OracleFail as e:
                res.update(status='violation', kind=e.kind, message=jdump(simworld._jsonable(e.detail))[:2000],
                           detail=simworld._jsonable(e.detail))
            except Skip as e:
                res.update(status='skip', kind='skip', message=str(e))
        res['events'] = sum(p['events'] for p in self.parts)
        res['sim_time'] = round(sum(p['sim_time'] for p in self.parts), 6)
        res['digest'] = hashlib.sha256(''.join(p['digest'] for p in self.parts).encode()).hexdigest()[:16]
        res['order_digest'] = hashlib.sha256(''.join(p['order_digest'] for p in self.parts).encode()).hexdigest()[:16]
        res['rank_order_digest'] = hashlib.sha256(''.join(p.get('rank_order_digest', '') for p in self.parts).encode()).hexdigest()[:16]
        faults, probes = {}, {}
        for p in self.parts:
            for k, v in p['faults'].items():
                faults[k] = faults.get(k, 0) + v
            for k, v in p['probes'].items():
                probes[k] = probes.get(k, 0) + v
        probes.update(res.get('probes') or {})
        res['faults'] = faults
        res['probes'] = probes
        res['tape'] = [p['tape'] for p in self.parts]
        if any('rank_traces' in p for p in self.parts):
            res['rank_traces'] = [t for p in self.parts for t in p.get('rank_traces', [{}])]
            res['result_digests'] = [t for p in self.parts for t in p.get('result_digests', [[]])]
        res['tape_len'] = sum(p['tape_len'] for p in self.parts)
        res['worlds'] = len(self.parts)
        if extra:
            for k, v in extra.items():
                if k == 'probes':
                    res['probes'].update(v)
                else:
                    res[k] = v
        return res


# OracleFail raised inside a rank thread is recorded by World as (type, str, tb).
# Keep its kind by patching how World stores it: done here to keep simworld generic.
_orig_run = World.run


def _run_with_kinds(self, fn, join_timeout=30.0):
    def fn2(r):
        try:
            return fn(r)
        except OracleFail as e:
            self.excs[r] = ('OracleFail', jdump(simworld._jsonable(e.detail))[:1800],
                            traceback.format_exc(), e.kind)
            raise simworld.SimAbort()
        except SkipWorld as e:
            self.excs[r] = ('SkipWorld', str(e), '')
            raise simworld.SimAbort()
        except Skip as e:
            self.excs[r] = ('Skip', str(e), '')
            raise simworld.SimAbort()
        except HarnessProblem as e:
            self.excs[r] = ('HarnessProblem', str(e), traceback.format_exc())
            raise simworld.SimAbort()
    return _orig_run(self, fn2, join_timeout)


World.run = _run_with_kinds


# ---------------------------------------------------------------------------
# scratch directories
# ---------------------------------------------------------------------------
def scratch_root():
    base = os.environ.get('VERIF_SCRATCH') or os.environ.get('TMPDIR') or '/tmp'
    d = os.path.join(base, 'pygyro-verif-%d' % os.getpid())
    os.makedirs(d, exist_ok=True)
    return d


class Scratch:
    def __enter__(self):
        self.path = tempfile.mkdtemp(prefix='w', dir=scratch_root())
        return self.path

    def __exit__(self, *a):
        shutil.rmtree(self.path, ignore_errors=True)


# ---------------------------------------------------------------------------
# check modules
# ---------------------------------------------------------------------------
def load_check(cid):
    import seams
    seams.install()
    return importlib.import_module('checks.' + cid.lower())


def gen_case(mod, base_seed, tier, i):
    s = case_seed(base_seed, mod.ID, i)
    rng = random.Random(s)
    case = mod.gen(rng, tier, i)
    case['seed'] = s
    case['idx'] = i
    every = (getattr(mod, 'HASHSEED_EVERY', None) or {}).get(tier)
    if os.environ.get('VERIF_HASHSEED_EVERY'):
        every = int(os.environ['VERIF_HASHSEED_EVERY'])       # (for trying the mechanism on a small sample)
    if every and i % every == every // 2 and case.get('kind') not in ('hashseed', 'sweep', 'driver') \
            and not case.get('systematic'):
        case['hashseeds'] = [1 + (s % 7), 77 + (s % 5), 1000 + (s % 97)][:int(getattr(mod, 'HASHSEED_N', 3))]
    if 'sched' not in case:
        case['sched'] = simworld.random_sched(rng, s)
    case['sched']['seed'] = s
    return case


def _trace_view(res):
    return dict(status=res.get('status'), kind=res.get('kind'), message=str(res.get('message'))[:300],
                rank_traces=res.get('rank_traces') or [], result_digests=res.get('result_digests') or [])


def _first_trace_diff(a, b):
    """(world, rank, position, what) of the first difference between two trace views, or None."""
    ta, tb = a['rank_traces'], b['rank_traces']
    if len(ta) != len(tb):
        return dict(why='number of Worlds differs', a=len(ta), b=len(tb))
    for wi, (x, y) in enumerate(zip(ta, tb)):
        for r in sorted(set(x) | set(y), key=int):
            ex, ey = x.get(r, []), y.get(r, [])
            for k in range(max(len(ex), len(ey))):
                ea = ex[k] if k < len(ex) else None
                eb = ey[k] if k < len(ey) else None
                if ea != eb:
                    return dict(world=wi, rank=int(r), collective_number=k, a=ea, b=eb,
                                why='this rank\'s contribution to a collective (operation, arguments or data sent) differs')
    ra, rb = a['result_digests'], b['result_digests']
    for wi, (x, y) in enumerate(zip(ra, rb)):
        for r, (u, v) in enumerate(zip(x, y)):
            if u != v:
                return dict(world=wi, rank=r, why='what this rank computed differs (same communication)')
    return None


def hashseed_children(cid, case, seeds, timeout=900):
    """The same case in fresh interpreters under other string-hash seeds: each returns its trace view."""
    outs = []
    sub = dict(case)
    sub.pop('hashseeds', None)
    for hs in seeds:
        env = dict(os.environ)
        env['PYTHONHASHSEED'] = str(int(hs))
        env['VERIF_NO_EVIDENCE'] = '1'
        env['VERIF_HASHCHILD'] = '1'
        try:
            p = subprocess.run([sys.executable, '-W', 'ignore', os.path.join(VERIF, 'sim', 'hashchild.py')],
                               input=json.dumps(dict(check=cid, case=sub)), capture_output=True, text=True,
                               env=env, timeout=timeout)
        except subprocess.TimeoutExpired:
            raise HarnessProblem('hash-seed child interpreter timed out')
        if p.returncode != 0:
            raise HarnessProblem('hash-seed child interpreter failed: ' + p.stderr[-800:])
        outs.append(json.loads(p.stdout.strip().splitlines()[-1]))
    return outs


def _run_hashseed_invariant(mod, case, tape):
    """Every real rank is an interpreter of its own with its own string-hash seed.  Ranks are threads of
    one interpreter here, so the same case is run again in fresh interpreters under other seeds and every
    rank's trace - per collective: operation, arguments, digest of the data it sends; at the end: digest of
    what it returns - must be the same under every seed.  Then (induction over the collectives) a job whose
    ranks have different seeds behaves exactly like these runs; a difference means some rank's behaviour
    depends on its own seed, i.e. the ranks of a real job would disagree."""
    c = dict(case)
    c['sched'] = dict(case['sched'], trace_payloads=True, poison=True)
    res = mod.run(c, tape)
    if res.get('status') != 'ok':
        return res
    base = _trace_view(res)
    try:
        outs = hashseed_children(mod.ID, c, case['hashseeds'])
    except HarnessProblem as e:
        res.update(status='harness', kind='harness-api', message=str(e))
        return res
    for hs, o in zip(case['hashseeds'], outs):
        if o['status'] == 'harness':
            res.update(status='harness', kind='harness-api', message='hash-seed child: %s' % o.get('message'))
            return res
        if o['status'] != 'ok':
            res.update(status='violation', kind='hashseed-dependent',
                       message=jdump(dict(why='the case passes under this interpreter\'s hash seed and not under another',
                                          hashseed=hs, child=dict(status=o['status'], kind=o['kind'], message=o['message']))),
                       detail=dict(hashseed=hs, child=o['kind']))
            return res
        d = _first_trace_diff(base, o)
        if d is not None:
            d['hashseeds'] = [os.environ.get('PYTHONHASHSEED', 'random'), hs]
            res.update(status='violation', kind='hashseed-dependent', message=jdump(d), detail=d)
            return res
    res.setdefault('probes', {})['hashseed_invariance_interpreters'] = len(outs)
    res.setdefault('faults', {})['hash-seed-interpreter'] = res.get('faults', {}).get('hash-seed-interpreter', 0) + len(outs)
    return res


def run_case(mod, case, tape=None):
    t0 = _real_perf()
    try:
        if case.get('hashseeds') and case.get('kind') != 'hashseed' and not os.environ.get('VERIF_HASHCHILD'):
            res = _run_hashseed_invariant(mod, case, tape)
        else:
            res = mod.run(case, tape)
    except BaseException as e:  # noqa
        res = dict(status='harness', prop=mod.ID, kind='harness-exception', message=repr(e),
                   detail=traceback.format_exc(), nontrivial=False, events=0, sim_time=0.0,
                   digest='', order_digest='', faults={}, probes={}, tape=[], tape_len=0,
                   finding_key=None)
    res['wall'] = _real_perf() - t0
    if res['status'] == 'violation' and hasattr(mod, 'finding_key'):
        try:
            res['finding_key'] = mod.finding_key(case, res)
        except Exception:
            res['finding_key'] = None
    return res


def _work(cid, tier, base_seed, indices, per_case_timeout):
    try:
        return _work_inner(cid, tier, base_seed, indices, per_case_timeout)
    finally:
        shutil.rmtree(scratch_root(), ignore_errors=True)


def _progress_dir():
    d = os.path.join(os.environ.get('VERIF_SCRATCH') or os.environ.get('TMPDIR') or '/tmp',
                     'pygyro-verif-progress-%s' % os.environ.get('VERIF_BATCH_ID', '0'))
    os.makedirs(d, exist_ok=True)
    return d


def _work_inner(cid, tier, base_seed, indices, per_case_timeout):
    mod = load_check(cid)
    out = []
    pfile = os.path.join(_progress_dir(), str(os.getpid()))
    for i in indices:
        with open(pfile, 'w') as fh:          # which case this worker is running (read by the parent if it dies)
            fh.write(str(i))
        faulthandler.dump_traceback_later(per_case_timeout, exit=True)
        try:
            case = gen_case(mod, base_seed, tier, i)
        except Exception as e:   # noqa  (a bug in a generator must not take the batch down silently)
            faulthandler.cancel_dump_traceback_later()
            out.append(dict(status='harness', prop=cid, kind='harness-generator', message=repr(e), nontrivial=False,
                            events=0, sim_time=0.0, digest='', order_digest='gen', rank_order_digest='', faults={},
                            probes={}, wall=0.0, finding_key=None, tape_len=0, idx=i, key='gen-%d' % i, P=None,
                            detail=traceback.format_exc()[-1500:]))
            continue
        res = run_case(mod, case)
        faulthandler.cancel_dump_traceback_later()
        slim = {k: res[k] for k in ('status', 'prop', 'kind', 'message', 'nontrivial', 'events',
                                    'sim_time', 'digest', 'order_digest', 'faults', 'probes',
                                    'wall', 'finding_key', 'tape_len')}
        slim['rank_order_digest'] = res.get('rank_order_digest', '')
        slim['idx'] = i
        slim['key'] = case_key(case)
        slim['P'] = case.get('P')
        if res['status'] in ('violation', 'harness'):
            slim['detail'] = res.get('detail')
        out.append(slim)
    try:
        os.unlink(pfile)
    except OSError:
        pass
    return out


# ---------------------------------------------------------------------------
# known findings
# ---------------------------------------------------------------------------
def load_known():
    path = os.path.join(VERIF, 'KNOWN_FINDINGS.txt')
    known = []
    if os.path.exists(path):
        for line in open(path):
            line = line.strip()
            if line.startswith('finding:'):
                parts = line.split(None, 3)
                d = dict(p.split('=', 1) for p in parts[1:3])
                d['text'] = parts[3] if len(parts) > 3 else ''
                known.append(d)
    return known


def match_known(known, prop, key):
    if key is None:
        return None
    for k in known:
        if k.get('property') == prop and k.get('key') == key:
            return k
    return None


# ---------------------------------------------------------------------------
# minimisation and replay
# ---------------------------------------------------------------------------
def minimise(mod, case, res, budget_runs=150, budget_s=60.0):
    """Greedy shrinking: case first (check-specific candidates), then faults and
    schedule.  A candidate is kept when it still yields a violation of the same
    class."""
    t0 = _real_time()
    kind = res['kind']
    runs = 0
    best, best_res = case, res
    notes = []

    def still(c):
        nonlocal runs
        runs += 1
        r = run_case(mod, c)
        return r if (r['status'] == 'violation' and r['kind'] == kind) else None

    if hasattr(mod, 'shrink'):
        progress = True
        while progress and runs < budget_runs and _real_time() - t0 < budget_s:
            progress = False
            for cand in mod.shrink(best):
                if runs >= budget_runs or _real_time() - t0 > budget_s:
                    break
                cand = json.loads(jdump(cand))
                cand['sched'] = dict(best['sched'])
                cand['seed'] = best.get('seed')
                cand['idx'] = best.get('idx')
                r = still(cand)
                if r is not None:
                    best, best_res = cand, r
                    progress = True
                    break
    # faults and schedule
    neutral = dict(best['sched'])
    neutral.update(mode='sync', strategy='lockstep', reduce_reorder=False, stall_p=0.0,
                   clock='exact', abort_at=None, poison=False, glob_shuffle=False)
    cand = dict(best)
    cand['sched'] = neutral
    r = still(cand)
    if r is not None:
        best, best_res = cand, r
        notes.append('schedule-independent: reproduces under lockstep/sync with every fault off')
    else:
        for key, val in (('reduce_reorder', False), ('stall_p', 0.0), ('clock', 'exact'),
                         ('poison', False), ('glob_shuffle', False), ('mode', 'sync'),
                         ('strategy', 'lockstep')):
            if best['sched'].get(key) == val or key not in best['sched']:
                continue
            cand = dict(best)
            cand['sched'] = dict(best['sched'])
            cand['sched'][key] = val
            r = still(cand)
            if r is not None:
                best, best_res = cand, r
        notes.append('schedule/fault dependent: needs sched=%s' % jdump(
            {k: v for k, v in best['sched'].items() if k != 'seed'}))
        # schedule shrinking: neutralise blocks of the tape (0.5 = "median" draw) while the
        # same violation class persists; what is left non-neutral is what the failure needs
        tape = best_res['tape']
        nested = bool(tape) and isinstance(tape[0], list)
        flat = [x for t in tape for x in t] if nested else list(tape)
        lens = [len(t) for t in tape] if nested else None

        def rebuild(fl):
            if not nested:
                return list(fl)
            out, p = [], 0
            for n in lens:
                out.append(fl[p:p + n])
                p += n
            return out

        def still_tape(fl):
            nonlocal runs
            runs += 1
            r = run_case(mod, best, tape=rebuild(fl))
            return r if (r['status'] == 'violation' and r['kind'] == kind) else None
        r0 = still_tape(flat) if flat else None
        if r0 is not None:
            block = max(1, len(flat) // 2)
            neutral = 0
            while block >= 1 and runs < budget_runs + 60 and _real_time() - t0 < budget_s + 30:
                i = 0
                while i < len(flat) and runs < budget_runs + 60:
                    if any(x != 0.5 for x in flat[i:i + block]):
                        cand = flat[:i] + [0.5] * len(flat[i:i + block]) + flat[i + block:]
                        r = still_tape(cand)
                        if r is not None:
                            flat = cand
                            r0 = r
                    i += block
                if block == 1:
                    break
                block //= 2
            neutral = sum(1 for x in flat if x == 0.5)
            best_res = dict(r0)
            best_res['tape'] = rebuild(flat)
            notes.append('tape shrunk: %d of %d scheduler draws neutralised' % (neutral, len(flat)))
    return best, best_res, runs, notes


def write_replay(mod, case, res, notes, tier, base_seed, minimise_runs, hang_timeout=None):
    d = os.path.join(VERIF, 'replays')
    os.makedirs(d, exist_ok=True)
    blob = dict(property=mod.ID, kind=res['kind'], message=res['message'], tier=tier,
                base_seed=base_seed, case=case, tape=res['tape'], notes=notes,
                digest=res['digest'], minimise_runs=minimise_runs, repo=repo_fingerprint(),
                hashseed=os.environ.get('PYTHONHASHSEED', ''), hang_timeout=hang_timeout,
                detail=res.get('detail'))
    h = hashlib.sha256(jdump(blob['case']).encode()).hexdigest()[:10]
    path = os.path.join(d, '%s-%s.json' % (mod.ID, h))
    with open(path, 'w') as f:
        f.write(json.dumps(blob, indent=1, sort_keys=True, default=repr))
    return path


def repo_fingerprint():
    import seams
    repo = seams.REPO or os.environ.get('VERIF_REPO', '/repo')
    try:
        head = subprocess.run(['git', '-C', repo, 'rev-parse', 'HEAD'], capture_output=True,
                              text=True, timeout=20).stdout.strip()
        diff = subprocess.run(['git', '-C', repo, 'diff', 'HEAD'], capture_output=True,
                              timeout=20).stdout
        return dict(head=head, diff_sha=hashlib.sha256(diff).hexdigest()[:12], path=repo)
    except Exception as e:   # noqa
        return dict(error=repr(e), path=repo)


def replay_file(path):
    """Re-execute a replay file from its tape (no PRNG).  Returns the result."""
    blob = json.load(open(path))
    mod = load_check(blob['property'])
    res = run_case(mod, blob['case'], tape=blob['tape'])
    return blob, res


def confirm_replay(path, kind):
    """Replay in a fresh interpreter (different hash seed).  True when it fails the same way."""
    env = dict(os.environ)
    env['VERIF_NO_EVIDENCE'] = '1'
    out = ''
    for hs in ('12345', None):
        # first under another string-hash seed; if the violation needs the recorded
        # seed (routes chosen through set iteration), the replay file pins it
        if hs is None:
            env.pop('PYTHONHASHSEED', None)
        else:
            env['PYTHONHASHSEED'] = hs
            env['VERIF_KEEP_HASHSEED'] = '1'
        try:
            p = subprocess.run([os.path.join(VERIF, 'check'), '--replay', path],
                               capture_output=True, text=True, env=env, timeout=900)
        except subprocess.TimeoutExpired:
            env.pop('VERIF_KEEP_HASHSEED', None)
            out = 'replay timed out'
            continue
        env.pop('VERIF_KEEP_HASHSEED', None)
        out = p.stdout[-2000:] + p.stderr[-2000:]
        if p.returncode == 1 and ('kind=%s' % kind) in p.stdout:
            return True, out
    return False, out


# ---------------------------------------------------------------------------
# batch
# ---------------------------------------------------------------------------
def run_batch(cid, tier, base_seed, jobs=None, wall_cap=None, count=None):
    t0 = _real_time()
    mod = load_check(cid)
    jobs = jobs or int(os.environ.get('VERIF_JOBS') or 0) or min(16, os.cpu_count() or 1)
    n = count or int(os.environ.get('VERIF_COUNT') or 0) or mod.BUDGET[tier]
    wall_cap = wall_cap or float(os.environ.get('VERIF_WALL') or 0) or mod.WALL[tier]
    per_case_timeout = int(os.environ.get('VERIF_CASE_TIMEOUT') or 0) or getattr(mod, 'CASE_TIMEOUT', 300)
    chunk = max(1, min(getattr(mod, 'CHUNK', 25), (n + jobs * 4 - 1) // (jobs * 4)))
    todo = [list(range(s, min(n, s + chunk))) for s in range(0, n, chunk)]
    os.environ['VERIF_BATCH_ID'] = '%d-%d' % (os.getpid(), int(t0 * 1000) % 10 ** 9)
    pdir = _progress_dir()
    results = []
    harness_errors = []
    hang_reported = False
    deaths = 0
    ctx = multiprocessing.get_context('fork')
    while todo and _real_time() - t0 <= wall_cap and deaths <= 3:
        for f in os.listdir(pdir):
            try:
                os.unlink(os.path.join(pdir, f))
            except OSError:
                pass
        pool = cf.ProcessPoolExecutor(max_workers=jobs, mp_context=ctx)
        futs = {}
        inflight = set()
        died = False
        try:
            def submit_more():
                while todo and len(inflight) < jobs * 2 and _real_time() - t0 <= wall_cap:
                    c = todo.pop(0)
                    f = pool.submit(_work, cid, tier, base_seed, c, per_case_timeout)
                    futs[f] = c
                    inflight.add(f)
            submit_more()
            while inflight:
                done, _ = cf.wait(inflight, timeout=per_case_timeout * 2 + 60, return_when=cf.FIRST_COMPLETED)
                if not done:
                    died = True
                    break
                for f in done:
                    inflight.discard(f)
                    try:
                        results.extend(f.result())
                        futs.pop(f)
                    except Exception:   # noqa (BrokenProcessPool: a worker died)
                        died = True
                if died:
                    break
                submit_more()
        finally:
            pool.shutdown(wait=False, cancel_futures=True)
        if not died:
            break
        # a worker died (watchdog after a rank spun without reaching the simulator, or a crash of the interpreter).
        # The progress files name the case each worker was running: those are the suspects; everything else that
        # was lost is simply run again in a fresh pool.
        deaths += 1
        done_idx = {r['idx'] for r in results}
        lost = sorted(i for c in futs.values() for i in c if i not in done_idx)
        suspects = set()
        for f in os.listdir(pdir):
            try:
                suspects.add(int(open(os.path.join(pdir, f)).read().strip()))
            except (OSError, ValueError):
                pass
        suspects = sorted(s for s in suspects if s in lost) or lost[:jobs]
        recovered, hangs = _isolate(cid, tier, base_seed, suspects, per_case_timeout, stop_at_first_hang=not hang_reported)
        results.extend(recovered)
        results.extend(hangs)
        if any(x['kind'] == 'hang' for x in hangs):
            hang_reported = True
        settled = {r['idx'] for r in recovered} | {x['idx'] for x in hangs}
        unsettled = [s for s in suspects if s not in settled]
        rest = [i for i in lost if i not in settled and i not in unsettled]
        for s in unsettled:            # further hanging suspects are not isolated again (each costs two timeouts)
            results.append(dict(status='harness', prop=cid, kind='harness-not-isolated', idx=s, nontrivial=False,
                                events=0, sim_time=0.0, digest='', order_digest='lost', rank_order_digest='',
                                faults={}, probes={}, wall=0.0, finding_key=None, tape_len=0, key='lost-%d' % s,
                                P=None, message='suspect of a worker death, not isolated', detail=None))
        todo = [rest[k:k + chunk] for k in range(0, len(rest), chunk)] + todo
    if deaths > 3:
        harness_errors.append('workers died %d times; giving up' % deaths)
    skipped_chunks = len(todo)
    try:
        shutil.rmtree(pdir, ignore_errors=True)
    except Exception:   # noqa
        pass
    results.sort(key=lambda r: r['idx'])
    return mod, results, harness_errors, skipped_chunks, _real_time() - t0, jobs


def _one_case_subprocess(cid, tier, base_seed, idx, timeout):
    env = dict(os.environ)
    env['VERIF_NO_EVIDENCE'] = '1'
    try:
        p = subprocess.run([os.path.join(VERIF, 'check'), cid, '--tier', tier, '--seed', str(base_seed),
                            '--one', str(idx)], capture_output=True, text=True, env=env, timeout=timeout)
    except subprocess.TimeoutExpired:
        return 'timeout', None
    for ln in reversed(p.stdout.splitlines()):
        if ln.startswith('ONE '):
            return 'done', json.loads(ln[4:])
    return 'crash', (p.stdout[-500:] + p.stderr[-1500:])


def _isolate(cid, tier, base_seed, suspects, per_case_timeout, stop_at_first_hang=True):
    recovered, hangs = [], []
    t = min(per_case_timeout, 240)
    t = int(os.environ.get('VERIF_CASE_TIMEOUT') or 0) or t
    for i in suspects:
        if any(x['kind'] == 'hang' for x in hangs) or (not stop_at_first_hang and hangs):
            break                     # one confirmed hang is reported; isolating more costs a timeout each
        st, r = _one_case_subprocess(cid, tier, base_seed, i, t)
        if st == 'timeout':
            st, r = _one_case_subprocess(cid, tier, base_seed, i, t)
        if st == 'done':
            recovered.append(r)
        elif st == 'timeout':
            hangs.append(dict(status='violation', prop=cid, kind='hang', idx=i, nontrivial=True, events=0,
                              sim_time=0.0, digest='', order_digest='hang', faults={}, probes={}, wall=2.0 * t,
                              finding_key=None, tape_len=0, key='hang-%d' % i, P=None,
                              message='a rank computes forever without reaching the simulator: the case did not '
                                      'finish within %d s in two fresh interpreters' % t, detail=None))
        else:
            hangs.append(dict(status='harness', prop=cid, kind='harness-crash', idx=i, nontrivial=False, events=0,
                              sim_time=0.0, digest='', order_digest='crash', faults={}, probes={}, wall=0.0,
                              finding_key=None, tape_len=0, key='crash-%d' % i, P=None, message=str(r)[-800:],
                              detail=None))
    return recovered, hangs


def main_one(cid, tier, base_seed, idx):
    mod = load_check(cid)
    case = gen_case(mod, base_seed, tier, idx)
    res = run_case(mod, case)
    slim = {k: res[k] for k in ('status', 'prop', 'kind', 'message', 'nontrivial', 'events', 'sim_time', 'digest',
                                'order_digest', 'faults', 'probes', 'wall', 'finding_key', 'tape_len')}
    slim['rank_order_digest'] = res.get('rank_order_digest', '')
    slim['idx'] = idx
    slim['key'] = case_key(case)
    slim['P'] = case.get('P')
    if res['status'] in ('violation', 'harness'):
        slim['detail'] = res.get('detail')
    print('ONE ' + jdump(slim))
    shutil.rmtree(scratch_root(), ignore_errors=True)
    return 0


def summarise(mod, tier, base_seed, results, harness_errors, skipped_chunks, wall, jobs,
              violations, known_hits, determinism):
    ev = len(results)
    nontrivial_keys = {r['key'] for r in results if r['nontrivial'] and r['status'] in ('ok', 'violation', 'aborted')}
    faults = {}
    probes = {}
    for r in results:
        for k, v in r['faults'].items():
            faults[k] = faults.get(k, 0) + v
        for k, v in r['probes'].items():
            probes[k] = probes.get(k, 0) + v
    status_counts = {}
    for r in results:
        status_counts[r['status']] = status_counts.get(r['status'], 0) + 1
    samples = []
    for i in sorted({0, 1, 2, ev // 2, ev - 1}):
        if 0 <= i < ev:
            c = gen_case(mod, base_seed, tier, results[i]['idx'])
            samples.append(dict(case=c, status=results[i]['status'], events=results[i]['events'],
                                schedule_digest=results[i]['digest']))
    sim_total = sum(r['sim_time'] for r in results)
    cov = dict(
        evaluations=ev,
        distinct_nontrivial=len(nontrivial_keys),
        rule=mod.RULE,
        samples=samples,
        status_counts=status_counts,
        runs_per_hour=int(ev / wall * 3600) if wall > 0 else 0,
        seeds_per_hour=int(ev / wall * 3600) if wall > 0 else 0,   # one seed per run
        simulated_seconds=round(sim_total, 3),
        events_processed=sum(r['events'] for r in results),
        fault_firings=dict(sorted(faults.items())),
        reach_probes=dict(sorted(probes.items())),
        distinct_interleavings=len({r['order_digest'] for r in results}),
        distinct_rank_orders=len({r.get('rank_order_digest', '') for r in results if r.get('P') not in (None, 1)}),
        distinct_rank_orders_measure='distinct SHA-256 of the bare sequence of rank ids in scheduler processing order (no operation names or contexts), over runs with more than one rank: the interleaving pattern alone',
        distinct_interleavings_measure='distinct SHA-256 of the global sequence of (rank, call kind, context, per-context sequence number, operation) over all processed simulator calls of a run; this separates workloads as well as schedules, i.e. it counts distinct (workload, interleaving) pairs - cases of one batch have different workloads, so it is an upper bound on distinct interleavings of any one workload',
        inconclusive=status_counts.get('harness', 0),
        skipped_cases=status_counts.get('skip', 0),
        chunks_not_run_wall_cap=skipped_chunks,
        ranks_histogram=_hist([r.get('P') for r in results]),
        workers=jobs,
        components=COMPONENTS,
        determinism_selftest=determinism,
        known_findings_hit=known_hits,
        harness_errors=harness_errors[:5],
    )
    return cov


def _hist(xs):
    h = {}
    for x in xs:
        h[str(x)] = h.get(str(x), 0) + 1
    return dict(sorted(h.items()))


def write_evidence(mod, tier, base_seed, cov, wall, nviol):
    if os.environ.get('VERIF_NO_EVIDENCE'):
        return
    if os.environ.get('VERIF_COUNT') and not os.environ.get('VERIF_FORCE_EVIDENCE'):
        return          # an ad-hoc --count run is not the registered tier: keep the committed evidence
    d = os.path.join(VERIF, 'evidence')
    os.makedirs(d, exist_ok=True)
    ev = dict(property_id=mod.ID, tier=tier, seed=int(base_seed), level='exploration',
              coverage=cov, assumptions=list(getattr(mod, 'ASSUMPTIONS', [])) + [
                  'the simulated MPI (sim/shim/mpi4py/MPI.py) follows the MPI standard for each collective used',
                  'interpreted (pure Python) kernels are the reference semantics; compiled kernels are not run',
                  'a clean batch is evidence over the sampled cases and schedules, not a proof'],
              wall_s=round(wall, 3), violations=nviol)
    path = os.path.join(d, '%s.json' % mod.ID)
    tmp = path + '.tmp'
    with open(tmp, 'w') as f:
        f.write(json.dumps(ev, indent=1, sort_keys=True, default=repr))
    os.replace(tmp, path)


def determinism_check(mod, tier, base_seed, results, k=None):
    """Re-run a few cases of the batch in this (different) process, from the seed
    and from the tape, and compare event-log digests."""
    checked = 0
    mismatches = []
    if k is None:
        k = getattr(mod, 'DET_K', 6)
    by_idx = {r['idx']: r for r in results}
    for i in sorted(by_idx)[:k]:
        r0 = by_idx[i]
        if r0['status'] not in ('ok', 'skip', 'aborted'):
            continue
        case = gen_case(mod, base_seed, tier, i)
        r1 = run_case(mod, case)
        r2 = run_case(mod, case, tape=r1['tape'])
        checked += 1
        if not (r0['digest'] == r1['digest'] == r2['digest'] and r0['status'] == r1['status'] == r2['status']):
            mismatches.append(dict(idx=i, worker=r0['digest'], rerun=r1['digest'], from_tape=r2['digest']))
    return dict(cases_rerun=checked, mismatches=mismatches)


ANCHORED = ['pygyro/model/layout.py', 'pygyro/model/grid.py', 'pygyro/advection/advection.py',
            'pygyro/poisson/poisson_solver.py', 'pygyro/diagnostics/norms.py', 'pygyro/diagnostics/energy.py',
            'pygyro/diagnostics/diagnostic_collector.py', 'pygyro/utilities/savingTools.py',
            'pygyro/initialisation/setups.py', 'pygyro/initialisation/constants.py',
            'pygyro/initialisation/initialiser.py', 'fullSimulation.py']


def line_reach(mod, base_seed, tier, n):
    """Run n cases of the batch in this process under coverage.py restricted to the
    anchored files; returns {file: [statements, lines never hit]} (thorough tier)."""
    try:
        import coverage
        import seams
    except Exception as e:   # noqa
        return {'error': repr(e)}
    repo = seams.REPO
    cov = coverage.Coverage(include=[os.path.join(repo, f) for f in ANCHORED], data_file=None)
    cov.start()
    ran = 0
    try:
        for i in range(n):
            case = gen_case(mod, base_seed, tier, i)
            if case.get('kind') == 'hashseed':
                continue
            run_case(mod, case)
            ran += 1
    finally:
        cov.stop()
    import ast
    out = {'cases': ran, 'note': 'statements inside function bodies only (modules are imported before measurement starts)'}
    for f in ANCHORED:
        try:
            path = os.path.join(repo, f)
            _, stmts, _, missing, _ = cov.analysis2(path)
            body = set()
            for node in ast.walk(ast.parse(_real_open_text(path))):
                if isinstance(node, (ast.FunctionDef, ast.AsyncFunctionDef)):
                    for st in node.body:
                        for sub in ast.walk(st):
                            if hasattr(sub, 'lineno') and isinstance(sub, ast.stmt):
                                body.add(sub.lineno)
            stm = [x for x in stmts if x in body]
            mis = [x for x in missing if x in body]
            if len(mis) < len(stm):
                out[f] = dict(statements=len(stm), never_hit=mis)
        except Exception as e:   # noqa
            out[f] = dict(error=repr(e))
    return out


def _real_open_text(path):
    import seams
    with seams.real_open(path) as fh:
        return fh.read()


def main_check(cid, tier, base_seed, jobs=None):
    t_start = _real_time()
    mod, results, herr, skipped, wall, jobs = run_batch(cid, tier, base_seed, jobs)
    known = load_known()
    viol = [r for r in results if r['status'] == 'violation']
    harness = [r for r in results if r['status'] == 'harness']
    lines = []
    exit_code = 0
    known_hits = {}
    reported = 0
    seen_kinds = set()
    not_reproduced = 0
    new_viol = []
    for r in viol:
        k = match_known(known, mod.ID, r.get('finding_key'))
        if k is not None:
            known_hits[k['key']] = known_hits.get(k['key'], 0) + 1
        else:
            new_viol.append(r)
    for key, cnt in sorted(known_hits.items()):
        k = [x for x in known if x['key'] == key][0]
        lines.append('KNOWN-FINDING: property=%s key=%s (%d cases) %s' % (mod.ID, key, cnt, k['text']))
    for r in new_viol:
        sig = (r['kind'],)
        if sig in seen_kinds or reported >= 3:
            continue
        seen_kinds.add(sig)
        case = gen_case(mod, base_seed, tier, r['idx'])
        if r['kind'] == 'hang':
            path = write_replay(mod, case, dict(kind='hang', message=r['message'], tape=[], digest='', detail=None),
                                ['not minimised: every execution of a hanging case costs the full timeout'],
                                tier, base_seed, 0, hang_timeout=min(getattr(mod, 'CASE_TIMEOUT', 300), 240))
            reported += 1
            exit_code = 1
            lines.append('VIOLATION property=%s replay=%s' % (mod.ID, path))
            lines.append('  kind=hang seed=%s idx=%d; %s' % (case['seed'], r['idx'], r['message']))
            continue
        full = run_case(mod, case)
        if full['status'] != 'violation':
            herr.append('violation at idx %d did not reproduce in the parent process' % r['idx'])
            # a verdict that depended on what the worker had run before (a process-level cache in the code under
            # test): try later cases of the same kind, a few times, for one that fails on its own
            not_reproduced += 1
            if not_reproduced <= 8:
                seen_kinds.discard(sig)
            continue
        best, best_res, runs, notes = minimise(mod, case, full)
        if match_known(known, mod.ID, best_res.get('finding_key')) is not None and \
                match_known(known, mod.ID, full.get('finding_key')) is None:
            best, best_res, notes = case, full, ['minimisation drifted into a known finding; unminimised case kept']
        path = write_replay(mod, best, best_res, notes, tier, base_seed, runs)
        ok, out = confirm_replay(path, best_res['kind'])
        if not ok:
            herr.append('replay %s did not reproduce in a fresh interpreter: %s' % (path, out[-400:]))
            continue
        reported += 1
        exit_code = 1
        lines.append('VIOLATION property=%s replay=%s' % (mod.ID, path))
        lines.append('  kind=%s seed=%s idx=%d minimised_in=%d runs; %s' % (
            best_res['kind'], case['seed'], r['idx'], runs, '; '.join(notes)))
        lines.append('  ' + (best_res['message'] or '')[:600])
    if os.environ.get('VERIF_DIGEST_OUT'):
        with open(os.environ['VERIF_DIGEST_OUT'], 'w') as f:
            json.dump([[r['idx'], r['status'], r['digest'], r['key']] for r in results], f)
    determinism = determinism_check(mod, tier, base_seed, results) if (results and not os.environ.get('VERIF_SKIP_DET')) else {}
    if determinism.get('mismatches'):
        herr.append('determinism self-test failed: %r' % determinism['mismatches'][:2])
    cov = summarise(mod, tier, base_seed, results, herr, skipped, wall, jobs, new_viol, known_hits,
                    determinism)
    if tier == 'thorough' and not os.environ.get('VERIF_NO_EVIDENCE'):
        cov['line_reach_sample'] = line_reach(mod, base_seed, tier, getattr(mod, 'REACH_N', 60))
    req = getattr(mod, 'REQUIRED_PROBES', [])
    missing = [p for p in req if not any(k == p or k.startswith(p) for k, v in cov['reach_probes'].items() if v)]
    cov['required_probes'] = list(req)
    cov['required_probes_missing'] = missing
    if missing and not os.environ.get('VERIF_COUNT') and not viol:
        # the workload no longer reaches a condition it was built to reach (a seam is bypassed, a generator drifted):
        # the batch proves less than it claims - say so loudly, in the output and in the evidence
        lines.append('REACH-WARNING: property=%s probes stuck at zero: %s' % (mod.ID, ', '.join(missing)))
    write_evidence(mod, tier, base_seed, cov, _real_time() - t_start, len(new_viol))
    for ln in lines:
        print(ln)
    n_inconclusive = len(harness)
    for r in harness:
        if r['kind'] in ('harness-crash', 'harness-generator'):
            herr.append('case %d: %s %s' % (r['idx'], r['kind'], (r.get('message') or '')[:300]))
    if skipped and not herr and any(r['kind'] == 'hang' for r in viol) is False and len(results) < (mod.BUDGET[tier] if not os.environ.get('VERIF_COUNT') else int(os.environ['VERIF_COUNT'])) and wall < mod.WALL[tier] * 0.9:
        herr.append('batch cut short: %d chunks were not run although the wall cap was not reached' % skipped)
    print('%s %s seed=%d: %d cases (%d distinct non-trivial, %d skipped, %d inconclusive), '
          '%d violations (%d known), %d interleavings, %.1fs on %d workers' % (
              mod.ID, tier, base_seed, len(results), cov['distinct_nontrivial'],
              cov['skipped_cases'], n_inconclusive, len(viol), len(viol) - len(new_viol),
              cov['distinct_interleavings'], wall, jobs))
    if exit_code == 0:
        if herr or n_inconclusive > 0 or not results:
            for h in herr[:5]:
                print('HARNESS-ERROR: ' + h)
            for r in harness[:3]:
                print('HARNESS-ERROR: idx %d: %s %s' % (r['idx'], r['kind'], (r['message'] or '')[:300]))
            exit_code = 2
    shutil.rmtree(scratch_root(), ignore_errors=True)
    return exit_code


def main_replay(path):
    blob0 = json.load(open(path))
    want = str(blob0.get('hashseed', '') or '')
    if want and os.environ.get('PYTHONHASHSEED', '') != want and not os.environ.get('VERIF_KEEP_HASHSEED'):
        # exact replay needs the interpreter string-hash seed of the recording
        env = dict(os.environ)
        env['PYTHONHASHSEED'] = want
        env['VERIF_KEEP_HASHSEED'] = '1'
        return subprocess.call([os.path.join(VERIF, 'check'), '--replay', path], env=env)
    if blob0.get('hang_timeout') and not os.environ.get('VERIF_REPLAY_CHILD'):
        env = dict(os.environ)
        env['VERIF_REPLAY_CHILD'] = '1'
        try:
            return subprocess.call([os.path.join(VERIF, 'check'), '--replay', path], env=env,
                                   timeout=blob0['hang_timeout'])
        except subprocess.TimeoutExpired:
            print('replay %s: status=violation kind=hang (no result within %d s)' % (path, blob0['hang_timeout']))
            print('VIOLATION property=%s replay=%s' % (blob0['property'], path))
            return 1
    blob, res = replay_file(path)
    print('replay %s: status=%s kind=%s digest=%s (recorded %s)' % (
        path, res['status'], res['kind'], res['digest'], blob.get('digest')))
    if res['status'] == 'violation':
        print('VIOLATION property=%s replay=%s' % (blob['property'], path))
        print('  ' + (res['message'] or '')[:1500])
        shutil.rmtree(scratch_root(), ignore_errors=True)
        return 1
    shutil.rmtree(scratch_root(), ignore_errors=True)
    return 0 if res['status'] in ('ok', 'skip', 'aborted') else 2
