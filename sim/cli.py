"""Command line of /verif/check (see DESIGN.md section 11)."""
import argparse
import os
import sys

HERE = os.path.dirname(os.path.abspath(__file__))
sys.path.insert(0, HERE)
sys.path.insert(0, os.path.dirname(HERE))


def main():
    ap = argparse.ArgumentParser(prog='check')
    ap.add_argument('id', nargs='?', help='property id (C01 ...) or "selftest"')
    ap.add_argument('--tier', default=os.environ.get('VERIF_TIER') or 'quick',
                    choices=['quick', 'thorough'])
    ap.add_argument('--seed', type=int, default=None)
    ap.add_argument('--replay', default=None)
    ap.add_argument('--jobs', type=int, default=None)
    ap.add_argument('--count', type=int, default=None)
    ap.add_argument('--one', type=int, default=None, help='run one case index and print its result (internal)')
    a = ap.parse_args()
    seed = a.seed
    if seed is None:
        try:
            seed = int(os.environ.get('VERIF_SEED') or 0)
        except ValueError:
            seed = 0
    if a.count:
        os.environ['VERIF_COUNT'] = str(a.count)
    import harness
    if a.replay:
        return harness.main_replay(a.replay)
    if not a.id:
        ap.error('property id required')
    if a.one is not None:
        return harness.main_one(a.id.upper(), a.tier, seed, a.one)
    if a.id.lower() == 'selftest':
        import selftest
        return selftest.main(a.tier, seed, a.jobs)
    return harness.main_check(a.id.upper(), a.tier, seed, a.jobs)


if __name__ == '__main__':
    try:
        rc = main()
    except SystemExit:
        raise
    except BaseException as e:   # noqa  (never exit 1 - the code of a violation - for a failure of the harness itself)
        import traceback
        traceback.print_exc()
        print('HARNESS-ERROR: %r' % (e,))
        rc = 2
    sys.exit(rc)
