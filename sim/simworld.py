"""simworld - deterministic simulation of an MPI job inside one Python process.

One `World` = one simulated job: P rank threads running real pygyro code, parked
on per-rank semaphores and released one at a time by a discrete-event scheduler.
Every scheduling decision (durations, ties, latencies, stalls, reduction order,
clock skew) is obtained through `World.draw()`, which either draws from the one
PRNG of the run (search) or pops the recorded tape (replay).  One integer seed =
one exactly repeatable execution; one tape = the same execution without a PRNG.

See /verif/DESIGN.md section 3.
"""
import hashlib
import math
import random
import sys
import threading
import traceback

_tls = threading.local()

STRATEGIES = ('uniform', 'priority', 'straggler', 'lockstep', 'bursty')
MODES = ('sync', 'eager')


class SimAbort(BaseException):
    """Raised inside rank threads to unwind them when the run is over."""


class SimUnsupported(BaseException):
    """The code under test called something the simulated MPI does not model.
    This is a harness limitation (exit 2), never a property violation."""


class Violation(Exception):
    """A violated invariant detected by the simulator's monitors."""

    def __init__(self, kind, detail=None):
        Exception.__init__(self, kind, detail)
        self.kind = kind
        self.detail = detail

    def to_json(self):
        return {'kind': self.kind, 'detail': _jsonable(self.detail)}


def _jsonable(x):
    if isinstance(x, (str, int, float, bool)) or x is None:
        return x
    if isinstance(x, dict):
        return {str(k): _jsonable(v) for k, v in sorted(x.items(), key=lambda kv: str(kv[0]))}
    if isinstance(x, (list, tuple)):
        return [_jsonable(v) for v in x]
    return repr(x)


def current():
    """(world, rank) of the calling thread, or (None, None) outside a simulation."""
    return getattr(_tls, 'world', None), getattr(_tls, 'rank', None)


def default_sched(seed=0, **kw):
    s = dict(seed=int(seed), mode='sync', strategy='uniform', reduce_reorder=False,
             stall_p=0.0, clock='exact', max_events=200000, abort_at=None,
             latency=1e-3)
    s.update(kw)
    return s


def random_sched(rng, seed, faults=True):
    """Swarm-style choice of a scheduling/fault configuration from a case rng."""
    s = default_sched(seed)
    s['mode'] = rng.choice(MODES)
    s['strategy'] = rng.choice(STRATEGIES)
    if faults:
        s['reduce_reorder'] = rng.random() < 0.5
        s['clock'] = rng.choice(['exact', 'skew', 'drift', 'jump', 'all'])
        if s['strategy'] == 'bursty':
            s['stall_p'] = rng.choice([0.02, 0.1, 0.3])
    else:
        s['mode'] = 'sync'
    return s


class Record:
    """One collective instance, identified by (context id, sequence number)."""
    __slots__ = ('op', 'sig', 'members', 'payload', 'result', 'done', 'waiting',
                 'arrival_T', 'rule', 'complete_fn', 'left', 'first_rank')

    def __init__(self, op, sig, members, rule, complete_fn, first_rank):
        self.op = op
        self.sig = sig
        self.members = members
        self.payload = {}
        self.result = {}
        self.done = False
        self.waiting = set()
        self.arrival_T = {}
        self.rule = rule
        self.complete_fn = complete_fn
        self.left = 0
        self.first_rank = first_rank


class World:
    def __init__(self, nranks, sched=None, tape=None):
        sched = dict(default_sched()) if sched is None else dict(sched)
        self.sched = sched
        self.n = nranks
        self.rng = random.Random(sched['seed'])
        self.mode = sched['mode']
        self.strategy = sched['strategy']
        self.reduce_reorder = bool(sched.get('reduce_reorder'))
        self.stall_p = float(sched.get('stall_p') or 0.0)
        self.max_events = int(sched.get('max_events') or 200000)
        self.abort_at = sched.get('abort_at')
        self.latency = float(sched.get('latency') or 1e-3)
        self.tape_in = list(tape) if tape is not None else None
        self.last_op = [None] * nranks
        self.tape_pos = 0
        self.tape = []
        self.sems = [threading.Semaphore(0) for _ in range(nranks)]
        self.main_sem = threading.Semaphore(0)
        self.state = ['ready'] * nranks        # ready | blocked | done
        self.pending = [None] * nranks         # description of the call a rank is blocked in
        self.now = 0.0
        self.next_T = [0.0] * nranks           # virtual time of the rank's next event
        self.T = [0.0] * nranks                # virtual time of the rank's last event
        self.records = {}
        self.seqs = {}
        self.next_cid = 1
        self.log = []
        self.gseq = 0
        self.error = None
        self.finished = False                  # set when the run is over (threads must unwind)
        self.job_aborted = False               # injected fail-stop of the whole job
        self.no_abort_depth = 0                # >0 while a checkpoint file is open for writing
        self.fault_counts = {}
        self.probes = {}
        self.world_members = tuple(range(nranks))
        self.shared = {}                       # scratch shared by the ranks' shims (e.g. h5 files)
        self.waiters = {}                      # rank -> predicate (blocked point-to-point calls)
        self.mailbox = {}                      # (cid, dst) -> list of pending messages
        perm = list(range(nranks))
        self._shuffle(perm)
        if sched.get('priority_perm') is not None and len(sched['priority_perm']) == nranks:
            perm = [int(x) for x in sched['priority_perm']]     # systematic arrival-order sweep
        self.tiebreak = perm
        self.tb_index = {r: i for i, r in enumerate(perm)}
        self.speed = [1.0] * nranks
        if self.strategy == 'priority':
            for i, r in enumerate(perm):
                self.speed[r] = 100.0 ** (i - (nranks - 1))      # slowest rank has speed 1, each faster one 100x
        elif self.strategy == 'straggler':
            self.speed[perm[0]] = 100.0
        # clock model (what the code *sees*; never influences scheduling)
        self.clock_offset = [0.0] * nranks
        self.clock_drift = [0.0] * nranks
        self.clock_jumps = [[] for _ in range(nranks)]
        cm = sched.get('clock', 'exact')
        span = sched.get('clock_span')            # expected virtual length of the run, if the caller knows it
        if cm != 'exact':
            for r in range(nranks):
                if cm in ('skew', 'all'):
                    self.clock_offset[r] = (self.draw() - 0.5) * 7200.0
                if cm in ('drift', 'all'):
                    self.clock_drift[r] = (self.draw() - 0.5) * (0.6 if span else 0.2)
                if cm in ('jump', 'all'):
                    for _ in range(2):
                        when = self.draw() * (span if span else 2000.0)
                        size = (self.draw() - 0.3) * (0.6 * span if span else 100.0)
                        self.clock_jumps[r].append((when, size))
        self.results = [None] * nranks
        self.excs = [None] * nranks
        self.threads = []
        for r in range(nranks):
            self.next_T[r] = self._duration(r)

    # ---- randomness: everything goes through the tape -------------------
    def draw(self):
        if self.tape_in is not None:
            if self.tape_pos < len(self.tape_in):
                x = self.tape_in[self.tape_pos]
            else:
                x = 0.5
            self.tape_pos += 1
        else:
            x = self.rng.random()
        self.tape.append(x)
        return x

    def _shuffle(self, lst):
        for i in range(len(lst) - 1, 0, -1):
            j = int(self.draw() * (i + 1))
            if j > i:
                j = i
            lst[i], lst[j] = lst[j], lst[i]

    def _duration(self, r):
        if self.strategy == 'lockstep':
            return 1.0
        if self.strategy == 'priority':
            return self.speed[r]
        d = -math.log(1.0 - self.draw() * 0.999999) * self.speed[r]
        p = self.stall_p
        if p > 0.0 and self.last_op[r] in ('Alltoall', 'Allgather', 'h5open', 'h5write', 'h5close', 'fs'):
            p = min(0.9, 4.0 * p)       # stalls land preferentially right after a layout change or file operation
        if p > 0.0 and self.draw() < p:
            d += 10.0 + 990.0 * self.draw()
            self.count_fault('stall')
        return d

    def count_fault(self, kind, n=1):
        self.fault_counts[kind] = self.fault_counts.get(kind, 0) + n

    def probe(self, name, n=1):
        self.probes[name] = self.probes.get(name, 0) + n

    # ---- clock -----------------------------------------------------------
    def clock(self, r):
        t = self.T[r]
        c = self.clock_offset[r] + (1.0 + self.clock_drift[r]) * t
        for when, size in self.clock_jumps[r]:
            if t >= when:
                c += size
        return 1.0e9 + c

    # ---- scheduling ------------------------------------------------------
    def _make_ready(self, r, t):
        self.state[r] = 'ready'
        self.pending[r] = None
        self.next_T[r] = t + self._duration(r)

    def _dispatch(self):
        """Choose who runs next.  Called by the thread that is about to park (or
        finish); exactly one rank thread is released, or the run is ended."""
        if self.finished:
            return
        if self.job_aborted:
            # fail-stop of the whole job: unwind the remaining ranks one by one
            alive = [r for r in range(self.n) if self.state[r] != 'done']
            if not alive:
                self._end()
                return
            self.sems[alive[0]].release()
            return
        runnable = [r for r in range(self.n) if self.state[r] == 'ready']
        if not runnable:
            if all(s == 'done' for s in self.state):
                self._end()
                return
            if self.error is None:
                if any(e is not None for e in self.excs):
                    r0 = min(r for r in range(self.n) if self.excs[r] is not None)
                    self.error = Violation('exception', dict(
                        rank=r0, type=self.excs[r0][0], msg=self.excs[r0][1],
                        blocked={q: self.pending[q] for q in range(self.n)
                                 if self.state[q] == 'blocked'}))
                else:
                    self.error = Violation('deadlock', dict(
                        pending={q: self.pending[q] for q in range(self.n)
                                 if self.state[q] == 'blocked'},
                        done=[q for q in range(self.n) if self.state[q] == 'done'],
                        stacks=self._stacks()))
            self._end()
            return
        tmin = min(self.next_T[r] for r in runnable)
        cands = [r for r in runnable if self.next_T[r] == tmin]
        if len(cands) > 1:
            cands.sort(key=self.tb_index.__getitem__)
        r = cands[0]
        self.now = tmin
        self.T[r] = tmin
        self.sems[r].release()

    def _stacks(self):
        out = {}
        frames = sys._current_frames()
        for r, th in enumerate(self.threads):
            if self.state[r] == 'blocked' and th.ident in frames:
                st = traceback.extract_stack(frames[th.ident])
                keep = [f for f in st if '/sim/' not in f.filename and 'threading' not in f.filename]
                out[r] = ['%s:%d %s' % (f.filename, f.lineno, f.name) for f in keep[-6:]]
        return out

    def _end(self):
        """End of run: wake everything so that threads unwind."""
        if self.finished:
            return
        self.finished = True
        for q in range(self.n):
            if self.state[q] != 'done':
                self.sems[q].release()
        self.main_sem.release()

    def _park(self, me):
        self._dispatch()
        self.sems[me].acquire()
        if self.finished:
            raise SimAbort()
        if self.job_aborted:
            raise SimAbort()

    def _fail(self, v):
        if self.error is None:
            self.error = v
        self._end()
        raise SimAbort()

    def event(self, me, kind, detail):
        if self.finished:
            raise SimAbort()        # unwinding code (e.g. a with-block closing a file) must not park again
        self.gseq += 1
        if self.gseq > self.max_events:
            self._fail(Violation('event-cap', self.gseq))
        self.log.append((self.gseq, round(self.T[me], 9), me, kind) + tuple(detail))
        self.last_op[me] = detail[2] if (kind == 'coll' and len(detail) > 2) else kind
        # the whole-job fail-stop lands only where the property's notion of "stopping" applies: at the first
        # agreement point of the time loop (an allreduce(LAND)) after the drawn event, never inside a checkpoint
        if (self.abort_at is not None and not self.job_aborted and self.gseq >= self.abort_at
                and self.no_abort_depth == 0
                and (not self.sched.get('abort_at_loop_boundary') or self._at_loop_boundary(kind, detail))):
            self.job_aborted = True
            self.count_fault('abort')
            self.log.append((self.gseq, round(self.T[me], 9), me, 'fault', 'abort'))
        if self.job_aborted:
            raise SimAbort()

    @staticmethod
    def _at_loop_boundary(kind, detail):
        return kind == 'coll' and len(detail) > 3 and detail[2] == 'allreduce' and 'LAND' in str(detail[3])

    def preempt(self, me, kind, detail=(), yield_time=False):
        """A non-blocking simulator call (FS operation, clock read, poll): log it and
        give the scheduler the chance to run somebody else first.  With yield_time the caller's
        clock is first advanced to the next event of any other runnable rank, so that a rank
        polling in a loop cannot starve the rank it is waiting for."""
        self.event(me, kind, detail)
        t = self.T[me]
        if yield_time:
            others = [self.next_T[r] for r in range(self.n) if r != me and self.state[r] == 'ready']
            if others:
                t = max(t, min(others))
        self._make_ready(me, t)
        self._park(me)

    # ---- collectives -----------------------------------------------------
    def collective(self, me, cid, members, op, sig, payload, complete_fn, rule='all', pdigest=None):
        """Join collective number k of rank `me` on context `cid`.

        sig          - everything that must be identical on all members
        payload      - this rank's contribution (send/recv buffers, objects)
        complete_fn  - called once with the list of payloads (member order) when
                       the last member arrives; returns per-member results or None
        rule         - 'all' (rendezvous), ('root_out', root) bcast-like,
                       ('root_in', root) gather/reduce-like
        """
        seq = self.seqs.get((me, cid), 0)
        self.seqs[(me, cid)] = seq + 1
        key = (cid, seq)
        rec = self.records.get(key)
        if rec is None:
            rec = self.records[key] = Record(op, sig, members, rule, complete_fn, me)
        self.event(me, 'coll', (cid, seq, op, repr(sig)) + ((pdigest,) if pdigest is not None else ()))
        if rec.op != op or rec.sig != sig:
            self._fail(Violation('collective-mismatch',
                                 dict(context=cid, seq=seq, first_rank=rec.first_rank,
                                      first=(rec.op, repr(rec.sig)),
                                      rank=me, got=(op, repr(sig)))))
        if me in rec.payload:
            self._fail(Violation('collective-mismatch', dict(context=cid, seq=seq, rank=me,
                                                             why='joined twice')))
        rec.payload[me] = payload
        rec.arrival_T[me] = self.T[me]
        if len(rec.payload) == len(members):
            try:
                res = complete_fn([rec.payload[w] for w in members])
            except Violation as v:
                self._fail(v)
            for i, w in enumerate(members):
                if w not in rec.result:
                    rec.result[w] = None if res is None else res[i]
            rec.done = True
            tdone = max(rec.arrival_T.values()) + self.latency
            for w in sorted(rec.waiting):
                self._make_ready(w, tdone)
            rec.waiting.clear()
            self._make_ready(me, tdone)
        elif self.mode == 'eager' and rule != 'all' and self._early(rec, me, members, payload):
            self.count_fault('eager-return')
            self._make_ready(me, self.T[me] + self.latency)
        else:
            rec.waiting.add(me)
            self.state[me] = 'blocked'
            self.pending[me] = (cid, seq, op, repr(sig))
        self._park(me)
        out = rec.result.get(me)
        rec.left += 1
        if rec.left == len(members):
            del self.records[key]
        return out

    def _early(self, rec, me, members, payload):
        kind, root = rec.rule
        if not (0 <= root < len(members)):
            return False
        rootw = members[root]
        if kind == 'root_out':       # bcast-like: output depends on the root only
            if me == rootw:
                rec.result[me] = payload
                for w in sorted(rec.waiting):
                    rec.result[w] = payload
                    self._make_ready(w, self.T[me] + self.latency)
                rec.waiting.clear()
                return True
            if rootw in rec.payload:
                rec.result[me] = rec.payload[rootw]
                return True
            return False
        if kind == 'root_in':        # gather/reduce-like: non-roots get nothing back
            if me != rootw:
                rec.result[me] = None
                return True
            return False
        return False

    # ---- generic blocking (point-to-point matching) ---------------------------
    def wait_until(self, me, predicate, desc):
        """Block rank `me` until predicate() is true.  Predicates are re-evaluated
        whenever another rank calls notify()."""
        self.event(me, 'p2p', desc)
        if predicate():
            self.notify(me)
            self._make_ready(me, self.T[me])
            self._park(me)
            return
        self.waiters[me] = predicate
        self.state[me] = 'blocked'
        self.pending[me] = tuple(desc)
        self._park(me)

    def notify(self, me):
        progress = True
        while progress:                   # a satisfied receive may in turn satisfy a synchronous send
            progress = False
            for r in sorted(self.waiters):
                pred = self.waiters.get(r)
                if pred is not None and pred():
                    self.waiters.pop(r, None)
                    self._make_ready(r, self.T[me] + self.latency)
                    progress = True

    def new_cid(self):
        c = self.next_cid
        self.next_cid += 1
        return c

    # ---- running ---------------------------------------------------------
    def run(self, fn, join_timeout=30.0):
        """Run fn(rank) on every rank thread to completion (or failure)."""
        def body(r):
            _tls.world = self
            _tls.rank = r
            _tls.comm_world = None
            _tls.comm_self = None
            self.sems[r].acquire()
            try:
                if self.finished or self.job_aborted:
                    raise SimAbort()
                self.results[r] = fn(r)
            except SimAbort:
                pass
            except SimUnsupported as e:
                self.excs[r] = ('SimUnsupported', str(e), traceback.format_exc())
                if self.error is None:
                    self.error = Violation('harness-unsupported', str(e))
                self.state[r] = 'done'
                self._end()
                return
            except BaseException as e:   # noqa
                self.excs[r] = (type(e).__name__, str(e), traceback.format_exc())
            finally:
                _tls.world = None
                _tls.rank = None
                _tls.comm_world = None
            self.state[r] = 'done'
            if not self.finished:
                self._dispatch()
        self.threads = [threading.Thread(target=body, args=(r,), daemon=True)
                        for r in range(self.n)]
        for t in self.threads:
            t.start()
        self._dispatch()
        self.main_sem.acquire()
        for t in self.threads:
            t.join(join_timeout)
        stuck = [r for r, t in enumerate(self.threads) if t.is_alive()]
        if stuck and self.error is None:
            self.error = Violation('harness-stuck-thread', stuck)
        if self.error is None and not self.job_aborted:
            bad = [r for r in range(self.n) if self.excs[r] is not None]
            if bad:
                r0 = bad[0]
                self.error = Violation('exception', dict(rank=r0, type=self.excs[r0][0],
                                                         msg=self.excs[r0][1], ranks=bad))
            elif any(v for k, v in self.mailbox.items() if k[0] != 'posted'):
                self.error = Violation('unmatched-message', dict(
                    messages=[(k, [(m['src'], m['tag']) for m in v]) for k, v in sorted(self.mailbox.items(), key=repr)
                              if v and k[0] != 'posted']))
            elif self.records:
                self.error = Violation('unmatched-collective', dict(
                    records=[(k, self.records[k].op, sorted(self.records[k].payload))
                             for k in sorted(self.records)]))
        return self.results

    # ---- digests ---------------------------------------------------------
    def digest(self):
        h = hashlib.sha256()
        for rec in self.log:
            h.update(repr(rec).encode())
        return h.hexdigest()[:16]

    def order_digest(self):
        """Digest of the interleaving only: which rank issued which call on which
        context, in global order (times and sizes dropped)."""
        h = hashlib.sha256()
        for rec in self.log:
            h.update(repr((rec[2],) + tuple(rec[3:7])).encode())
        return h.hexdigest()[:16]

    def rank_order_digest(self):
        """Digest of the interleaving pattern alone: the sequence of rank ids in the order in
        which the scheduler processed their simulator calls (no operation names, no contexts)."""
        h = hashlib.sha256(bytes(bytearray(min(rec[2], 255) for rec in self.log)))
        return h.hexdigest()[:16]

    def sim_time(self):
        return max(self.T) if self.T else 0.0
