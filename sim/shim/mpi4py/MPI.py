"""Simulated mpi4py.MPI - the only transport the code under test sees.

Found first on sys.path (it shadows the installed mpi4py, which cannot be
imported here because there is no libmpi).  Every call is routed to the World of
the calling rank thread (sim/simworld.py).  Semantics follow the MPI standard's
text for each collective; buffer specifications are parsed the way mpi4py does
and transfers are done on byte views (count = nbytes / extent(datatype)).

Calls outside the implemented set raise SimUnsupported: a harness limitation,
never a property violation.
"""
import pickle

import hashlib
import re

import numpy as np

import simworld
from simworld import Violation, SimUnsupported

__all__ = ['COMM_WORLD', 'COMM_NULL', 'Comm']


class MPIUsageError(ValueError, TypeError):
    """What mpi4py itself would raise for this call (bad buffer, wrong count, invalid rank...):
    the program under test is wrong, the simulation is not."""


# ---------------------------------------------------------------------------
# reduction operations and datatypes
# ---------------------------------------------------------------------------
class Op:
    def __init__(self, name, fobj, farr):
        self.name = name
        self.fobj = fobj
        self.farr = farr

    def __repr__(self):
        return 'MPI.' + self.name

    def __call__(self, a, b):
        return self.fobj(a, b)


SUM = Op('SUM', lambda a, b: a + b, lambda a, b: a + b)
PROD = Op('PROD', lambda a, b: a * b, lambda a, b: a * b)
MIN = Op('MIN', lambda a, b: b if b < a else a, np.minimum)
MAX = Op('MAX', lambda a, b: b if b > a else a, np.maximum)
LAND = Op('LAND', lambda a, b: bool(a) and bool(b), np.logical_and)
LOR = Op('LOR', lambda a, b: bool(a) or bool(b), np.logical_or)
BAND = Op('BAND', lambda a, b: a & b, np.bitwise_and)
BOR = Op('BOR', lambda a, b: a | b, np.bitwise_or)


class Datatype:
    def __init__(self, name, size, npdt=None):
        self.name = name
        self.size = size
        self.extent = size
        self.npdt = npdt

    def Get_size(self):
        return self.size

    def Get_extent(self):
        return (0, self.size)

    def __getattr__(self, name):
        if name.startswith('__'):
            raise AttributeError(name)
        raise SimUnsupported('simulated MPI.Datatype has no %s' % name)

    def __repr__(self):
        return 'MPI.' + self.name


BYTE = Datatype('BYTE', 1, np.uint8)
CHAR = Datatype('CHAR', 1, np.int8)
SIGNED_CHAR = Datatype('SIGNED_CHAR', 1, np.int8)
UNSIGNED_CHAR = Datatype('UNSIGNED_CHAR', 1, np.uint8)
BOOL = C_BOOL = Datatype('C_BOOL', 1, np.bool_)
SHORT = Datatype('SHORT', 2, np.int16)
INT = Datatype('INT', 4, np.int32)
INT32_T = Datatype('INT32_T', 4, np.int32)
UNSIGNED = Datatype('UNSIGNED', 4, np.uint32)
LONG = Datatype('LONG', 8, np.int64)
LONG_LONG = Datatype('LONG_LONG', 8, np.int64)
INT64_T = Datatype('INT64_T', 8, np.int64)
UNSIGNED_LONG = Datatype('UNSIGNED_LONG', 8, np.uint64)
FLOAT = Datatype('FLOAT', 4, np.float32)
DOUBLE = Datatype('DOUBLE', 8, np.float64)
COMPLEX = C_FLOAT_COMPLEX = Datatype('C_FLOAT_COMPLEX', 8, np.complex64)
DOUBLE_COMPLEX = C_DOUBLE_COMPLEX = Datatype('C_DOUBLE_COMPLEX', 16, np.complex128)

def _canon(dt):
    """type signature class: (kind, base item size); complex counts as pairs of floats, char/byte kinds by size"""
    k = np.dtype(dt.npdt)
    if k.kind == 'c':
        return ('f', k.itemsize // 2)
    if k.kind == 'b':
        return ('u', 1)
    if k.kind in 'iu' and k.itemsize == 1:
        return ('u', 1)
    return (k.kind, k.itemsize)


def _same_type(a, b):
    return _canon(a) == _canon(b)


_BY_NP = {
    np.dtype(np.float64): DOUBLE, np.dtype(np.float32): FLOAT,
    np.dtype(np.complex128): C_DOUBLE_COMPLEX, np.dtype(np.complex64): C_FLOAT_COMPLEX,
    np.dtype(np.int64): LONG, np.dtype(np.int32): INT, np.dtype(np.int16): SHORT,
    np.dtype(np.int8): SIGNED_CHAR, np.dtype(np.uint8): UNSIGNED_CHAR,
    np.dtype(np.uint32): UNSIGNED, np.dtype(np.uint64): UNSIGNED_LONG,
    np.dtype(np.bool_): C_BOOL,
}

IN_PLACE = type('InPlace', (), {'__repr__': lambda s: 'MPI.IN_PLACE'})()
ANY_SOURCE = -1
ANY_TAG = -1
PROC_NULL = -2
UNDEFINED = -32766
SUCCESS = 0


def Wtime():
    w, r = simworld.current()
    if w is None:
        import time
        return time.perf_counter()
    w.preempt(r, 'clock', ('Wtime',))
    return w.clock(r)


def Is_initialized():
    return True


def Is_finalized():
    return False


def Get_processor_name():
    return 'simworld'


# ---------------------------------------------------------------------------
# buffer specifications
# ---------------------------------------------------------------------------
class Buf:
    """A parsed buffer specification: byte view + element description."""
    __slots__ = ('arr', 'bytes', 'dt', 'count', 'counts', 'displs')

    def nbytes(self):
        return self.count * self.dt.size


def _as_array(obj, writable):
    if isinstance(obj, np.ndarray):
        a = obj
    else:
        try:
            a = np.asarray(memoryview(obj))
        except TypeError:
            raise MPIUsageError("a bytes-like object is required, not '%s'" % type(obj).__name__)
    if not (a.flags.c_contiguous or a.flags.f_contiguous):
        raise MPIUsageError('ndarray is not contiguous')     # what mpi4py raises
    if writable and not a.flags.writeable:
        raise MPIUsageError('Object is not writable')
    return a


def _byteview(a):
    if a.size == 0:
        return np.empty(0, dtype=np.uint8)
    if a.flags.c_contiguous:
        return a.reshape(-1).view(np.uint8)
    return a.T.reshape(-1).view(np.uint8)          # F-contiguous


def _no_in_place(x, op):
    if x is IN_PLACE:
        raise SimUnsupported('MPI.IN_PLACE in %s is not modelled' % op)


_SCRATCH_RE = re.compile(r"/[^\s'\"]*pygyro-verif-\d+(/w[A-Za-z0-9_]+)?")
_ROOTED_SEND = ('Bcast', 'bcast', 'Scatter', 'Scatterv', 'scatter')


def _send_digest(op, sig, payload, rank):
    """What this rank contributes to a collective (send side only), for the hash-seed invariance
    traces: receive buffers hold whatever was there before and are left out; for operations whose
    data come from the root only the root's contribution counts."""
    if op in _ROOTED_SEND and sig and int(sig[0]) != rank:
        return '-'
    if isinstance(payload, tuple) and len(payload) == 2 and op[:1].isupper() and op not in ('Split',):
        payload = payload[0]
    h = hashlib.sha256()

    def feed(x):
        if x is None:
            h.update(b'N')
        elif isinstance(x, Buf):
            h.update(x.dt.name.encode())
            h.update(bytes(x.bytes if x.counts is not None else x.bytes[:x.nbytes()]))
        elif isinstance(x, np.ndarray):
            h.update(str(x.dtype).encode())
            h.update(np.ascontiguousarray(x).tobytes())
        elif isinstance(x, (tuple, list)):
            h.update(b'[')
            for y in x:
                feed(y)
            h.update(b']')
        elif isinstance(x, dict):
            for k in sorted(x, key=repr):
                feed(k)
                feed(x[k])
        else:
            h.update(_SCRATCH_RE.sub('<SCRATCH>', repr(x)).encode())
    feed(payload)
    return h.hexdigest()[:10]


def parse_buf(spec, writable=False, vector=False):
    """Parse `buf`, `[buf, type]`, `[buf, count, type]`, `[buf, counts, displs, type]`,
    `[buf, (counts, displs), type]`, `[buf, counts]` as mpi4py does."""
    b = Buf()
    b.counts = None
    b.displs = None
    dt = None
    count = None
    if isinstance(spec, (list, tuple)):
        items = list(spec)
        if not 1 <= len(items) <= 4:
            raise MPIUsageError('message: expecting 1 to 4 items')
        obj = items[0]
        rest = items[1:]
        if rest and (isinstance(rest[-1], Datatype) or isinstance(rest[-1], str)):
            dt = rest.pop()
            if isinstance(dt, str):
                dt = _BY_NP[np.dtype(dt)]
        if len(rest) == 1:
            c = rest[0]
            if isinstance(c, (tuple, list)) and len(c) == 2 and not np.isscalar(c[0]) \
                    and c[0] is not None and hasattr(c[0], '__len__'):
                b.counts, b.displs = c
            elif np.isscalar(c) or c is None:
                count = None if c is None else int(c)
            else:
                b.counts = c
        elif len(rest) == 2:
            b.counts, b.displs = rest
        elif len(rest) > 2:
            raise MPIUsageError('message: too many items')
    else:
        obj = spec
    a = _as_array(obj, writable)
    b.arr = a
    b.bytes = _byteview(a)
    if dt is None:
        dt = _BY_NP.get(a.dtype)
        if dt is None:
            raise SimUnsupported('no MPI datatype for numpy dtype %r' % (a.dtype,))
    b.dt = dt
    if b.counts is not None:
        b.counts = [int(x) for x in np.atleast_1d(b.counts)]
        if b.displs is None:
            d = [0]
            for c in b.counts[:-1]:
                d.append(d[-1] + c)
            b.displs = d
        else:
            b.displs = [int(x) for x in np.atleast_1d(b.displs)]
        if len(b.displs) != len(b.counts):
            raise MPIUsageError('message: counts and displs of different length')
        b.count = sum(b.counts)
    else:
        if b.bytes.size % dt.size != 0:
            raise MPIUsageError('message: buffer length %d is not a multiple of datatype size %d'
                             % (b.bytes.size, dt.size))
        n = b.bytes.size // dt.size
        if count is None:
            count = n
        elif count > n:
            raise MPIUsageError('message: buffer too small for requested count')
        b.count = count
    return b


def _overlap(x, y):
    if x.bytes.size == 0 or y.bytes.size == 0:
        return False
    return bool(np.may_share_memory(x.bytes, y.bytes)) and bool(np.shares_memory(x.bytes, y.bytes))


def _check_private(bufs, op):
    """send/recv buffers of different ranks must not share memory: real ranks are separate processes"""
    for i in range(len(bufs)):
        for j in range(i + 1, len(bufs)):
            a, b = bufs[i], bufs[j]
            if a is not None and b is not None and a.size and b.size and np.may_share_memory(a, b) \
                    and np.shares_memory(a, b):
                raise SimUnsupported('ranks %d and %d pass overlapping buffers to %s: the code under test keeps '
                                     'process-global mutable state, which the one-interpreter simulation cannot '
                                     'separate' % (i, j, op))


def _pcopy(obj):
    return pickle.loads(pickle.dumps(obj, protocol=pickle.HIGHEST_PROTOCOL))


def _fold(world, op, vals, arrays):
    """Combine contributions; order and tree shape are seeded when the
    reduce-reorder fault is on (MPI leaves both open)."""
    vals = list(vals)
    f = op.farr if arrays else op.fobj
    tree = False
    if world.reduce_reorder and len(vals) > 1:
        world._shuffle(vals)
        tree = world.draw() < 0.5
        world.count_fault('reduce-reorder')
    if tree:
        while len(vals) > 1:
            nxt = []
            for i in range(0, len(vals) - 1, 2):
                nxt.append(f(vals[i], vals[i + 1]))
            if len(vals) % 2:
                nxt.append(vals[-1])
            vals = nxt
        return vals[0]
    acc = vals[0]
    for x in vals[1:]:
        acc = f(acc, x)
    return acc


# ---------------------------------------------------------------------------
# communicators
# ---------------------------------------------------------------------------
class _CommMeta(type):
    def __instancecheck__(cls, obj):
        return type.__instancecheck__(cls, obj) or type(obj).__name__ in ('_WorldProxy', '_SelfProxy')


class Comm(metaclass=_CommMeta):
    """A communicator handle as held by one rank: (context id, ordered members)."""

    def __init__(self, world, cid, members, wrank, dims=None):
        self._world = world
        self._cid = cid
        self._members = tuple(members)
        self._wrank = wrank
        self._rank = self._members.index(wrank)
        self._dims = None if dims is None else [int(d) for d in dims]
        self._freed = False

    # identity -------------------------------------------------------------
    def __eq__(self, o):
        if isinstance(o, _WorldProxy):
            return self._cid == 0
        return isinstance(o, Comm) and o._cid == self._cid

    def __ne__(self, o):
        return not self.__eq__(o)

    def __hash__(self):
        return hash(('comm', self._cid))

    def __bool__(self):
        return True

    def __repr__(self):
        return '<sim Comm cid=%d rank=%d/%d>' % (self._cid, self._rank, len(self._members))

    def __getattr__(self, name):
        if name.startswith('__'):
            raise AttributeError(name)
        raise SimUnsupported('simulated MPI.Comm has no %s()' % name)

    # queries --------------------------------------------------------------
    def Get_rank(self):
        return self._rank

    def Get_size(self):
        return len(self._members)

    rank = property(Get_rank)
    size = property(Get_size)

    def Get_name(self):
        return 'sim-%d' % self._cid

    def Is_inter(self):
        return False

    def Is_intra(self):
        return True

    def Get_topology(self):
        return UNDEFINED if self._dims is None else 1

    def Abort(self, errorcode=0):
        raise RuntimeError('MPI_Abort(%d)' % errorcode)

    def Free(self):
        self._freed = True

    # plumbing -------------------------------------------------------------
    def _coll(self, op, sig, payload, complete, rule='all'):
        if self._freed:
            raise RuntimeError('communicator used after Free()')
        pd = None
        if self._world.sched.get('trace_payloads'):
            pd = _send_digest(op, sig, payload, self._rank)
        return self._world.collective(self._wrank, self._cid, self._members, op, sig,
                                      payload, complete, rule, pd)

    def _check_root(self, root):
        root = int(root)
        if not 0 <= root < len(self._members):
            raise MPIUsageError('invalid root %d for communicator of size %d'
                             % (root, len(self._members)))
        return root

    # communicator constructors (collective, always rendezvous) ---------------
    def Dup(self):
        w = self._world

        def complete(p):
            cid = w.new_cid()
            return [cid] * len(p)
        cid = self._coll('Dup', (), None, complete)
        return Comm(w, cid, self._members, self._wrank, self._dims)

    Clone = Dup

    def Create_cart(self, dims, periods=None, reorder=False):
        dims = [int(d) for d in np.atleast_1d(dims)]
        n = int(np.prod(dims)) if dims else 1
        if n > len(self._members) or any(d < 1 for d in dims):
            raise ValueError('MPI_ERR_DIMS: cartesian grid %r does not fit in %d processes'
                             % (dims, len(self._members)))
        w = self._world

        def complete(p):
            cid = w.new_cid()
            return [cid] * len(p)
        cid = self._coll('Create_cart', (tuple(dims), bool(reorder)), None, complete)
        if self._rank >= n:
            return COMM_NULL
        members = self._members[:n]
        if reorder and n > 1:
            # an MPI library may renumber the processes of a cartesian topology when reorder is true: the
            # simulated one always does (backwards), so that code which asks for it must use the new ranks
            members = tuple(reversed(members))
            w.count_fault('cart-reorder')
        return Comm(w, cid, members, self._wrank, dims)

    def _need_cart(self):
        if self._dims is None:
            raise TypeError('communicator has no cartesian topology')

    def Get_dim(self):
        self._need_cart()
        return len(self._dims)

    @property
    def dims(self):
        self._need_cart()
        return list(self._dims)

    @property
    def ndim(self):
        return self.Get_dim()

    @property
    def coords(self):
        return self.Get_coords(self._rank)

    def Get_topo(self):
        self._need_cart()
        return (list(self._dims), [0] * len(self._dims), self.Get_coords(self._rank))

    def Get_coords(self, rank):
        self._need_cart()
        rank = int(rank)
        if not 0 <= rank < len(self._members):
            raise ValueError('invalid rank %d' % rank)
        if not self._dims:
            return []
        return [int(x) for x in np.unravel_index(rank, self._dims)]

    def Get_cart_rank(self, coords):
        self._need_cart()
        return int(np.ravel_multi_index([int(c) for c in coords], self._dims))

    def Sub(self, remain_dims):
        self._need_cart()
        remain = [bool(x) for x in remain_dims]
        if len(remain) != len(self._dims):
            raise ValueError('Sub: remain_dims has wrong length')
        w = self._world
        members = self._members
        dims = self._dims

        def key_of(lrank):
            co = np.unravel_index(lrank, dims) if dims else ()
            return tuple(int(x) for x, r in zip(co, remain) if not r)

        def complete(p):
            groups = {}
            for lr, wr in enumerate(members):
                groups.setdefault(key_of(lr), []).append(wr)
            cids = {k: w.new_cid() for k in sorted(groups)}
            return [(cids[key_of(lr)], tuple(groups[key_of(lr)])) for lr in range(len(members))]
        cid, mem = self._coll('Sub', (tuple(remain),), None, complete)
        return Comm(w, cid, mem, self._wrank, [d for d, r in zip(dims, remain) if r])

    def Split(self, color=0, key=0):
        w = self._world
        members = self._members

        def complete(p):
            groups = {}
            for lr, (col, k) in enumerate(p):
                if col != UNDEFINED:
                    groups.setdefault(col, []).append((k, lr, members[lr]))
            cids = {}
            for col in sorted(groups):
                groups[col].sort()
                cids[col] = w.new_cid()
            out = []
            for (col, k) in p:
                if col == UNDEFINED:
                    out.append(None)
                else:
                    out.append((cids[col], tuple(x[2] for x in groups[col])))
            return out
        res = self._coll('Split', (), (int(color), int(key)), complete)
        if res is None:
            return COMM_NULL
        return Comm(w, res[0], res[1], self._wrank)

    # synchronisation --------------------------------------------------------
    def Barrier(self):
        self._coll('Barrier', (), None, lambda p: None)

    barrier = Barrier

    # object collectives -----------------------------------------------------
    def bcast(self, obj=None, root=0):
        root = self._check_root(root)
        payload = _pcopy(obj) if self._rank == root else None
        res = self._coll('bcast', (root,), payload, lambda p: [p[root]] * len(p),
                         ('root_out', root))
        return obj if self._rank == root else _pcopy(res)

    def gather(self, sendobj, root=0):
        root = self._check_root(root)
        return self._coll('gather', (root,), _pcopy(sendobj),
                          lambda p: [list(p) if i == root else None for i in range(len(p))],
                          ('root_in', root))

    def scatter(self, sendobj=None, root=0):
        root = self._check_root(root)
        n = len(self._members)
        if self._rank == root:
            sendobj = list(sendobj)
            if len(sendobj) != n:
                raise ValueError('expecting %d items, got %d' % (n, len(sendobj)))
            payload = _pcopy(sendobj)
        else:
            payload = None
        return self._coll('scatter', (root,), payload, lambda p: list(p[root]))

    def allgather(self, sendobj):
        return self._coll('allgather', (), _pcopy(sendobj),
                          lambda p: [_pcopy(list(p)) for _ in p])

    def alltoall(self, sendobj):
        n = len(self._members)
        sendobj = list(sendobj)
        if len(sendobj) != n:
            raise ValueError('expecting %d items, got %d' % (n, len(sendobj)))
        return self._coll('alltoall', (), _pcopy(sendobj),
                          lambda p: [[p[i][j] for i in range(n)] for j in range(n)])

    def reduce(self, sendobj, op=SUM, root=0):
        root = self._check_root(root)
        w = self._world

        def complete(p):
            acc = _fold(w, op, p, False)
            return [acc if i == root else None for i in range(len(p))]
        return self._coll('reduce', (root, op.name), _pcopy(sendobj), complete, ('root_in', root))

    def allreduce(self, sendobj, op=SUM):
        w = self._world

        def complete(p):
            acc = _fold(w, op, p, False)
            return [_pcopy(acc) for _ in p]
        return self._coll('allreduce', (op.name,), _pcopy(sendobj), complete)

    # point-to-point (object and buffer) -------------------------------------------
    # Messages and posted receives are matched in order (non-overtaking): a message is paired with the
    # earliest posted matching receive, a receive with the earliest matching message.  Standard-mode sends
    # are buffered in 'eager' completion mode and synchronous (complete only when matched) in 'sync' mode;
    # both are legal MPI behaviours, and a program that relies on buffering deadlocks under the second.
    def _boxes(self, rank):
        w = self._world
        return (w.mailbox.setdefault((self._cid, rank), []), w.mailbox.setdefault(('posted', self._cid, rank), []))

    def _post_send(self, dest, tag, payload, kind):
        w = self._world
        dest = int(dest)
        if dest == PROC_NULL:
            return None
        if not 0 <= dest < len(self._members):
            raise MPIUsageError('invalid destination rank %d' % dest)
        msg = dict(src=self._rank, tag=int(tag), payload=payload, kind=kind, matched=False)
        msgs, posted = self._boxes(dest)
        for req in posted:
            if req['msg'] is None and req['source'] in (ANY_SOURCE, msg['src']) and req['tag'] in (ANY_TAG, msg['tag']):
                req['msg'] = msg
                msg['matched'] = True
                posted.remove(req)
                break
        else:
            msgs.append(msg)
        w.notify(self._wrank)
        return msg

    def _post_recv(self, source, tag):
        w = self._world
        req = dict(source=int(source), tag=int(tag), msg=None)
        if req['source'] == PROC_NULL:
            req['msg'] = dict(src=PROC_NULL, tag=ANY_TAG, payload=None, kind='null', matched=True)
            return req
        msgs, posted = self._boxes(self._rank)
        for m_ in msgs:
            if req['source'] in (ANY_SOURCE, m_['src']) and req['tag'] in (ANY_TAG, m_['tag']):
                req['msg'] = m_
                m_['matched'] = True
                msgs.remove(m_)
                break
        else:
            posted.append(req)
        w.notify(self._wrank)
        return req

    def _peek(self, source, tag):
        msgs, _ = self._boxes(self._rank)
        for m_ in msgs:
            if int(source) in (ANY_SOURCE, m_['src']) and int(tag) in (ANY_TAG, m_['tag']):
                return m_
        return None

    def _wait_send(self, msg, what):
        w = self._world
        if msg is not None and w.mode == 'sync':
            w.wait_until(self._wrank, lambda: msg['matched'], (what, self._cid))
        else:
            w.preempt(self._wrank, 'p2p', (what, self._cid))

    def _wait_recv(self, req, what):
        self._world.wait_until(self._wrank, lambda: req['msg'] is not None, (what, self._cid, req['source'], req['tag']))
        return req['msg']

    def _deliver_obj(self, m_, status):
        if m_['kind'] == 'null':
            return None
        if m_['kind'] != 'obj':
            raise Violation('buffer-mismatch', dict(op='recv', why='buffer message received with object recv'))
        if status is not None:
            status._set(m_)
        return m_['payload']

    def _deliver_buf(self, m_, buf, status):
        if m_['kind'] == 'null':
            return
        r = parse_buf(buf, writable=True)
        if m_['kind'] != 'buf':
            raise Violation('buffer-mismatch', dict(op='Recv', why='object message received with buffer Recv'))
        dt, data = m_['payload']
        if not _same_type(dt, r.dt) or data.size > r.nbytes():
            raise Violation('buffer-mismatch', dict(op='Recv', sent=(dt.name, int(data.size)),
                                                    recv=(r.dt.name, int(r.nbytes()))))
        r.bytes[:data.size] = data
        if status is not None:
            status._set(m_)

    def _bufmsg(self, buf):
        b = parse_buf(buf)
        return (b.dt, b.bytes[:b.nbytes()].copy())

    def send(self, obj, dest, tag=0):
        self._wait_send(self._post_send(dest, tag, _pcopy(obj), 'obj'), 'send')

    ssend = send
    bsend = send

    def recv(self, buf=None, source=ANY_SOURCE, tag=ANY_TAG, status=None):
        return self._deliver_obj(self._wait_recv(self._post_recv(source, tag), 'recv'), status)

    def Send(self, buf, dest, tag=0):
        self._wait_send(self._post_send(dest, tag, self._bufmsg(buf), 'buf'), 'Send')

    Ssend = Send
    Bsend = Send

    def Recv(self, buf, source=ANY_SOURCE, tag=ANY_TAG, status=None):
        self._deliver_buf(self._wait_recv(self._post_recv(source, tag), 'Recv'), buf, status)

    def sendrecv(self, sendobj, dest, sendtag=0, recvbuf=None, source=ANY_SOURCE, recvtag=ANY_TAG, status=None):
        req = self._post_recv(source, recvtag)
        self._post_send(dest, sendtag, _pcopy(sendobj), 'obj')
        return self._deliver_obj(self._wait_recv(req, 'sendrecv'), status)

    def Sendrecv(self, sendbuf, dest, sendtag=0, recvbuf=None, source=ANY_SOURCE, recvtag=ANY_TAG, status=None):
        req = self._post_recv(source, recvtag)
        self._post_send(dest, sendtag, self._bufmsg(sendbuf), 'buf')
        self._deliver_buf(self._wait_recv(req, 'Sendrecv'), recvbuf, status)

    def isend(self, obj, dest, tag=0):
        return Request(self, 'send', msg=self._post_send(dest, tag, _pcopy(obj), 'obj'))

    issend = isend

    def Isend(self, buf, dest, tag=0):
        return Request(self, 'send', msg=self._post_send(dest, tag, self._bufmsg(buf), 'buf'))

    Issend = Isend

    def irecv(self, buf=None, source=ANY_SOURCE, tag=ANY_TAG):
        return Request(self, 'recv', req=self._post_recv(source, tag))

    def Irecv(self, buf, source=ANY_SOURCE, tag=ANY_TAG):
        parse_buf(buf, writable=True)
        return Request(self, 'Recv', req=self._post_recv(source, tag), buf=buf)

    def iprobe(self, source=ANY_SOURCE, tag=ANY_TAG, status=None):
        # a fruitless poll yields virtual time to the other ranks (a spinning rank must not starve the sender)
        self._world.preempt(self._wrank, 'p2p', ('iprobe', self._cid, int(source), int(tag)), yield_time=True)
        m_ = self._peek(source, tag)
        if m_ is not None and status is not None:
            status._set(m_)
        return m_ is not None

    Iprobe = iprobe

    def probe(self, source=ANY_SOURCE, tag=ANY_TAG, status=None):
        self._world.wait_until(self._wrank, lambda: self._peek(source, tag) is not None,
                               ('probe', self._cid, int(source), int(tag)))
        m_ = self._peek(source, tag)
        if status is not None:
            status._set(m_)
        return True

    Probe = probe

    # buffer collectives -----------------------------------------------------
    def Bcast(self, buf, root=0):
        root = self._check_root(root)
        b = parse_buf(buf, writable=(self._rank != root))

        def complete(p):
            src = p[root]
            for i, x in enumerate(p):
                if not _same_type(x.dt, src.dt) or x.nbytes() != src.nbytes():
                    raise Violation('buffer-mismatch', dict(op='Bcast', rank=i,
                                                            root=(src.dt.name, src.count),
                                                            got=(x.dt.name, x.count)))
            data = src.bytes[:src.nbytes()].copy()
            for i, x in enumerate(p):
                if i != root:
                    x.bytes[:x.nbytes()] = data
            return None
        self._coll('Bcast', (root,), b, complete)

    def Alltoall(self, sendbuf, recvbuf):
        n = len(self._members)
        _no_in_place(sendbuf, 'Alltoall')
        s = parse_buf(sendbuf)
        r = parse_buf(recvbuf, writable=True)
        if s.count % n or r.count % n:
            raise MPIUsageError('message: buffer count is not a multiple of the communicator size')
        cid = self._cid

        def complete(p):
            sb = [x[0].nbytes() // n for x in p]
            rb = [x[1].nbytes() // n for x in p]
            if len(set(sb)) != 1 or len(set(rb)) != 1 or sb[0] != rb[0] or \
                    len({_canon(x[0].dt) for x in p} | {_canon(x[1].dt) for x in p}) != 1:
                raise Violation('buffer-mismatch', dict(op='Alltoall', context=cid,
                                                        send_block_bytes=sb, recv_block_bytes=rb))
            for i, (si, ri) in enumerate(p):
                if _overlap(si, ri):
                    raise Violation('buffer-alias', dict(op='Alltoall', rank=i))
            _check_private([x[1].bytes for x in p], 'Alltoall')
            b = sb[0]
            for j in range(n):
                rj = p[j][1].bytes
                for i in range(n):
                    rj[i * b:(i + 1) * b] = p[i][0].bytes[j * b:(j + 1) * b]
            return None
        self._coll('Alltoall', (), (s, r), complete)

    def Allgather(self, sendbuf, recvbuf):
        n = len(self._members)
        r = parse_buf(recvbuf, writable=True)
        if sendbuf is IN_PLACE:
            if r.count % n:
                raise MPIUsageError('message: buffer count is not a multiple of the communicator size')
            blk = r.nbytes() // n
            s = Buf()
            s.arr = None
            s.dt = r.dt
            s.count = r.count // n
            s.counts = s.displs = None
            s.bytes = r.bytes[self._rank * blk:(self._rank + 1) * blk].copy()
        else:
            s = parse_buf(sendbuf)
        cid = self._cid

        def complete(p):
            sb = [x[0].nbytes() for x in p]
            rb = [x[1].nbytes() for x in p]
            if len(set(sb)) != 1 or any(q != sb[0] * n for q in rb) or \
                    len({_canon(x[0].dt) for x in p} | {_canon(x[1].dt) for x in p}) != 1:
                raise Violation('buffer-mismatch', dict(op='Allgather', context=cid,
                                                        send_bytes=sb, recv_bytes=rb))
            for i, (si, ri) in enumerate(p):
                if si.arr is not None and _overlap(si, ri):
                    raise Violation('buffer-alias', dict(op='Allgather', rank=i))
            _check_private([x[1].bytes for x in p], 'Allgather')
            b = sb[0]
            for j in range(n):
                rj = p[j][1].bytes
                for i in range(n):
                    rj[i * b:(i + 1) * b] = p[i][0].bytes[:b]
            return None
        self._coll('Allgather', (), (s, r), complete)

    def Allgatherv(self, sendbuf, recvbuf):
        n = len(self._members)
        s = parse_buf(sendbuf)
        r = parse_buf(recvbuf, writable=True, vector=True)
        cid = self._cid

        def complete(p):
            for j in range(n):
                rr = p[j][1]
                if rr.counts is None:
                    if rr.count % n:
                        raise Violation('buffer-mismatch', dict(op='Allgatherv', rank=j))
                    c = rr.count // n
                    rr.counts = [c] * n
                    rr.displs = [c * i for i in range(n)]
                e = rr.dt.size
                for i in range(n):
                    if p[i][0].nbytes() != rr.counts[i] * e or not _same_type(p[i][0].dt, rr.dt):
                        raise Violation('buffer-mismatch', dict(
                            op='Allgatherv', context=cid, receiver=j, sender=i,
                            sent_bytes=p[i][0].nbytes(), expected_bytes=rr.counts[i] * e))
                    lo = rr.displs[i] * e
                    if lo < 0 or lo + rr.counts[i] * e > rr.bytes.size:
                        raise Violation('buffer-overrun', dict(op='Allgatherv', rank=j))
                if _overlap(p[j][0], rr):
                    raise Violation('buffer-alias', dict(op='Allgatherv', rank=j))
            for j in range(n):
                rr = p[j][1]
                e = rr.dt.size
                for i in range(n):
                    lo = rr.displs[i] * e
                    rr.bytes[lo:lo + rr.counts[i] * e] = p[i][0].bytes[:rr.counts[i] * e]
            return None
        self._coll('Allgatherv', (), (s, r), complete)

    def Alltoallv(self, sendbuf, recvbuf):
        n = len(self._members)
        s = parse_buf(sendbuf, vector=True)
        r = parse_buf(recvbuf, writable=True, vector=True)
        for b in (s, r):
            if b.counts is None:
                if b.count % n:
                    raise MPIUsageError('message: buffer count is not a multiple of the communicator size')
                c = b.count // n
                b.counts = [c] * n
                b.displs = [c * i for i in range(n)]
            if len(b.counts) != n:
                raise MPIUsageError('message: expecting %d counts, got %d' % (n, len(b.counts)))
        cid = self._cid

        def complete(p):
            for i in range(n):
                si = p[i][0]
                if _overlap(si, p[i][1]):
                    raise Violation('buffer-alias', dict(op='Alltoallv', rank=i))
                for j in range(n):
                    rj = p[j][1]
                    if si.counts[j] * si.dt.size != rj.counts[i] * rj.dt.size or not _same_type(si.dt, rj.dt):
                        raise Violation('buffer-mismatch', dict(
                            op='Alltoallv', context=cid, sender=i, receiver=j,
                            sent=(si.dt.name, si.counts[j]), expected=(rj.dt.name, rj.counts[i])))
                    lo = si.displs[j] * si.dt.size
                    if lo < 0 or lo + si.counts[j] * si.dt.size > si.bytes.size:
                        raise Violation('buffer-overrun', dict(op='Alltoallv', rank=i, side='send'))
                    lo = rj.displs[i] * rj.dt.size
                    if lo < 0 or lo + rj.counts[i] * rj.dt.size > rj.bytes.size:
                        raise Violation('buffer-overrun', dict(op='Alltoallv', rank=j, side='recv'))
            for j in range(n):
                rj = p[j][1]
                e = rj.dt.size
                for i in range(n):
                    si = p[i][0]
                    nb = si.counts[j] * si.dt.size
                    rj.bytes[rj.displs[i] * e:rj.displs[i] * e + nb] = \
                        si.bytes[si.displs[j] * si.dt.size:si.displs[j] * si.dt.size + nb]
            return None
        self._coll('Alltoallv', (), (s, r), complete)

    def Gather(self, sendbuf, recvbuf, root=0):
        root = self._check_root(root)
        n = len(self._members)
        _no_in_place(sendbuf, 'Gather')
        s = parse_buf(sendbuf)
        s.bytes = s.bytes[:s.nbytes()].copy()
        r = parse_buf(recvbuf, writable=True) if self._rank == root else None
        cid = self._cid

        def complete(p):
            rr = p[root][1]
            sb = [x[0].nbytes() for x in p]
            if len(set(sb)) != 1 or rr.nbytes() != n * sb[0] or \
                    len({_canon(x[0].dt) for x in p} | {_canon(rr.dt)}) != 1:
                raise Violation('buffer-mismatch', dict(op='Gather', context=cid, send_bytes=sb,
                                                        recv_bytes=rr.nbytes()))
            b = sb[0]
            for i in range(n):
                rr.bytes[i * b:(i + 1) * b] = p[i][0].bytes
            return None
        self._coll('Gather', (root,), (s, r), complete, ('root_in', root))

    def Gatherv(self, sendbuf, recvbuf, root=0):
        root = self._check_root(root)
        n = len(self._members)
        _no_in_place(sendbuf, 'Gatherv')
        s = parse_buf(sendbuf)
        s.bytes = s.bytes[:s.nbytes()].copy()       # a rank may return early (eager)
        r = parse_buf(recvbuf, writable=True, vector=True) if self._rank == root else None
        cid = self._cid

        def complete(p):
            rr = p[root][1]
            if rr.counts is None:
                if rr.count % n:
                    raise Violation('buffer-mismatch', dict(op='Gatherv', why='no counts'))
                c = rr.count // n
                rr.counts = [c] * n
                rr.displs = [c * i for i in range(n)]
            if len(rr.counts) != n:
                raise Violation('buffer-mismatch', dict(op='Gatherv', context=cid,
                                                        why='len(counts) != size',
                                                        counts=rr.counts))
            e = rr.dt.size
            spans = []
            for i in range(n):
                if p[i][0].nbytes() != rr.counts[i] * e or not _same_type(p[i][0].dt, rr.dt):
                    raise Violation('buffer-mismatch', dict(
                        op='Gatherv', context=cid, sender=i, sent=(p[i][0].dt.name, p[i][0].count),
                        expected=(rr.dt.name, rr.counts[i])))
                lo = rr.displs[i] * e
                hi = lo + rr.counts[i] * e
                if lo < 0 or hi > rr.bytes.size:
                    raise Violation('buffer-overrun', dict(op='Gatherv', context=cid, sender=i,
                                                           lo=lo, hi=hi, size=int(rr.bytes.size)))
                if hi > lo:
                    spans.append((lo, hi))
            spans.sort()
            for a, b2 in zip(spans, spans[1:]):
                if b2[0] < a[1]:
                    raise Violation('buffer-overrun', dict(op='Gatherv', why='overlapping displs'))
            for i in range(n):
                lo = rr.displs[i] * e
                rr.bytes[lo:lo + rr.counts[i] * e] = p[i][0].bytes
            return None
        self._coll('Gatherv', (root,), (s, r), complete, ('root_in', root))

    def Scatter(self, sendbuf, recvbuf, root=0):
        root = self._check_root(root)
        n = len(self._members)
        s = parse_buf(sendbuf) if self._rank == root else None
        r = parse_buf(recvbuf, writable=True)
        cid = self._cid

        def complete(p):
            ss = p[root][0]
            rb = [x[1].nbytes() for x in p]
            if len(set(rb)) != 1 or ss.nbytes() != n * rb[0]:
                raise Violation('buffer-mismatch', dict(op='Scatter', context=cid, recv_bytes=rb,
                                                        send_bytes=ss.nbytes()))
            b = rb[0]
            data = ss.bytes.copy()
            for i in range(n):
                p[i][1].bytes[:b] = data[i * b:(i + 1) * b]
            return None
        self._coll('Scatter', (root,), (s, r), complete)

    def Scatterv(self, sendbuf, recvbuf, root=0):
        root = self._check_root(root)
        n = len(self._members)
        s = parse_buf(sendbuf, vector=True) if self._rank == root else None
        _no_in_place(recvbuf, 'Scatterv')
        r = parse_buf(recvbuf, writable=True)
        cid = self._cid

        def complete(p):
            ss = p[root][0]
            if ss.counts is None:
                if ss.count % n:
                    raise Violation('buffer-mismatch', dict(op='Scatterv', why='no counts'))
                c = ss.count // n
                ss.counts = [c] * n
                ss.displs = [c * i for i in range(n)]
            e = ss.dt.size
            data = ss.bytes.copy()
            for i in range(n):
                rr = p[i][1]
                if rr.nbytes() < ss.counts[i] * e or not _same_type(rr.dt, ss.dt):
                    raise Violation('buffer-mismatch', dict(op='Scatterv', context=cid, receiver=i,
                                                            sent=(ss.dt.name, ss.counts[i]), recv=(rr.dt.name, rr.count)))
                lo = ss.displs[i] * e
                if lo < 0 or lo + ss.counts[i] * e > data.size:
                    raise Violation('buffer-overrun', dict(op='Scatterv', context=cid, receiver=i))
                rr.bytes[:ss.counts[i] * e] = data[lo:lo + ss.counts[i] * e]
            return None
        self._coll('Scatterv', (root,), (s, r), complete)

    def scan(self, sendobj, op=SUM):
        def complete(p):
            out, acc = [], None
            for i, x in enumerate(p):
                acc = x if i == 0 else op.fobj(acc, x)
                out.append(_pcopy(acc))
            return out
        return self._coll('scan', (op.name,), _pcopy(sendobj), complete)

    def Scan(self, sendbuf, recvbuf, op=SUM):
        _no_in_place(sendbuf, 'Scan')
        s = parse_buf(sendbuf)
        r = parse_buf(recvbuf, writable=True)
        snap = self._typed(s).copy()

        def complete(p):
            acc = None
            for i, x in enumerate(p):
                acc = x[0].copy() if i == 0 else op.farr(acc, x[0])
                x[1].bytes[:x[1].nbytes()].view(x[1].dt.npdt)[:] = acc
            return None
        self._coll('Scan', (op.name,), (snap, r), complete)

    def _typed(self, b):
        """numeric view of a parsed buffer for reductions"""
        npdt = b.dt.npdt
        return b.bytes[:b.nbytes()].view(npdt)

    def Reduce(self, sendbuf, recvbuf, op=SUM, root=0):
        root = self._check_root(root)
        w = self._world
        isroot = self._rank == root
        if sendbuf is IN_PLACE:
            if not isroot:
                raise ValueError('MPI.IN_PLACE is only valid at the root of Reduce')
            r = parse_buf(recvbuf, writable=True)
            s = parse_buf(recvbuf)
        else:
            s = parse_buf(sendbuf)
            r = parse_buf(recvbuf, writable=True) if isroot else None
            if isroot and _overlap(s, r):
                raise Violation('buffer-alias', dict(op='Reduce', rank=self._rank))
        snap = self._typed(s).copy()
        cid = self._cid

        def complete(p):
            cnt = [(x[0].size, str(x[0].dtype)) for x in p]
            rr = p[root][1]
            if len(set(cnt)) != 1 or rr.count != cnt[0][0] or str(np.dtype(rr.dt.npdt)) != cnt[0][1]:
                raise Violation('buffer-mismatch', dict(op='Reduce', context=cid, send=cnt,
                                                        recv=(rr.count, rr.dt.name)))
            acc = _fold(w, op, [x[0] for x in p], True)
            self_t = rr.bytes[:rr.nbytes()].view(rr.dt.npdt)
            self_t[:] = acc
            return None
        self._coll('Reduce', (root, op.name), (snap, r), complete, ('root_in', root))

    def Allreduce(self, sendbuf, recvbuf, op=SUM):
        w = self._world
        r = parse_buf(recvbuf, writable=True)
        if sendbuf is IN_PLACE:
            s = parse_buf(recvbuf)
        else:
            s = parse_buf(sendbuf)
            if _overlap(s, r):
                raise Violation('buffer-alias', dict(op='Allreduce', rank=self._rank))
        snap = self._typed(s).copy()
        cid = self._cid

        def complete(p):
            cnt = [(x[0].size, str(x[0].dtype)) for x in p]
            if len(set(cnt)) != 1 or any(x[1].count != cnt[0][0] for x in p):
                raise Violation('buffer-mismatch', dict(op='Allreduce', context=cid, send=cnt))
            acc = _fold(w, op, [x[0] for x in p], True)
            for x in p:
                x[1].bytes[:x[1].nbytes()].view(x[1].dt.npdt)[:] = acc
            return None
        self._coll('Allreduce', (op.name,), (snap, r), complete)


class Status:
    def __init__(self):
        self.source = ANY_SOURCE
        self.tag = ANY_TAG
        self.count = 0
        self.error = SUCCESS

    def _set(self, m_):
        self.source = m_['src']
        self.tag = m_['tag']
        p = m_['payload']
        self.count = int(p[1].size) if m_['kind'] == 'buf' else 0

    def Get_source(self):
        return self.source

    def Get_tag(self):
        return self.tag

    def Get_error(self):
        return self.error

    def Get_count(self, datatype=BYTE):
        return self.count // datatype.size

    def __getattr__(self, name):
        if name.startswith('__'):
            raise AttributeError(name)
        raise SimUnsupported('simulated MPI.Status has no %s' % name)


class Request:
    """A non-blocking operation.  The receive is posted when irecv/Irecv is called (not at wait),
    so that matching follows posting order as the standard requires."""

    def __init__(self, comm, kind, msg=None, req=None, buf=None):
        self._comm = comm
        self._kind = kind
        self._msg = msg
        self._req = req
        self._buf = buf
        self._done = False
        self._result = None

    def _finish_recv(self, status):
        c = self._comm
        m_ = self._req['msg']
        if self._kind == 'recv':
            self._result = c._deliver_obj(m_, status)
        else:
            c._deliver_buf(m_, self._buf, status)
        self._done = True

    def wait(self, status=None):
        if self._done:
            return self._result
        c = self._comm
        if self._kind == 'send':
            c._wait_send(self._msg, 'wait-send')
            self._done = True
            return None
        c._wait_recv(self._req, 'wait-recv')
        self._finish_recv(status)
        return self._result

    Wait = wait

    def _complete_now(self):
        c = self._comm
        if self._kind == 'send':
            return self._msg is None or self._msg['matched'] or c._world.mode != 'sync'
        return self._req['msg'] is not None

    def test(self, status=None):
        c = self._comm
        if self._done:
            return (True, self._result)
        c._world.preempt(c._wrank, 'p2p', ('test', c._cid), yield_time=True)
        if not self._complete_now():
            return (False, None)
        if self._kind == 'send':
            self._done = True
            return (True, None)
        self._finish_recv(status)
        return (True, self._result)

    def Test(self, status=None):
        return self.test(status)[0]

    def Cancel(self):
        raise SimUnsupported('Request.Cancel is not modelled')

    def Free(self):
        pass

    @staticmethod
    def Waitall(requests, statuses=None):
        """Completes when all requests are complete, whatever their order in the list."""
        reqs = [r for r in requests if r is not None and not r._done]
        if not reqs:
            return True
        c = reqs[0]._comm
        c._world.wait_until(c._wrank, lambda: all(r._complete_now() for r in reqs), ('waitall', c._cid, len(reqs)))
        for r in reqs:
            if r._kind == 'send':
                r._done = True
            else:
                r._finish_recv(None)
        return True

    @staticmethod
    def waitall(requests, statuses=None):
        Request.Waitall(requests, statuses)
        return [r._result for r in requests]

    @staticmethod
    def Waitany(requests, status=None):
        reqs = [r for r in requests if r is not None and not r._done]
        if not reqs:
            return UNDEFINED
        c = reqs[0]._comm
        c._world.wait_until(c._wrank, lambda: any(r._complete_now() for r in reqs), ('waitany', c._cid, len(reqs)))
        for i, r in enumerate(requests):
            if r is not None and not r._done and r._complete_now():
                if r._kind == 'send':
                    r._done = True
                else:
                    r._finish_recv(status)
                return i
        return UNDEFINED

    @staticmethod
    def waitany(requests, status=None):
        i = Request.Waitany(requests, status)
        return (i, None if i == UNDEFINED else requests[i]._result)

    def __getattr__(self, name):
        if name.startswith('__'):
            raise AttributeError(name)
        raise SimUnsupported('simulated MPI.Request has no %s' % name)


Intracomm = Comm
Cartcomm = Comm


class _CommNull:
    def __eq__(self, o):
        return isinstance(o, _CommNull)

    def __ne__(self, o):
        return not isinstance(o, _CommNull)

    def __hash__(self):
        return hash('COMM_NULL')

    def __bool__(self):
        return False

    def __repr__(self):
        return 'MPI.COMM_NULL'

    def __getattr__(self, name):
        if name.startswith('__'):
            raise AttributeError(name)
        raise RuntimeError('MPI_ERR_COMM: null communicator used (%s)' % name)


COMM_NULL = _CommNull()


class _WorldProxy:
    """MPI.COMM_WORLD: resolves to the calling rank's world communicator, so that
    default arguments evaluated at import time (comm=MPI.COMM_WORLD) work."""

    def _get(self):
        w, r = simworld.current()
        if w is None:
            raise RuntimeError('MPI.COMM_WORLD used outside a simulated rank')
        c = getattr(simworld._tls, 'comm_world', None)
        if c is None or c._world is not w:
            c = Comm(w, 0, w.world_members, r)
            simworld._tls.comm_world = c
        return c

    def __getattr__(self, name):
        if name.startswith('__'):
            raise AttributeError(name)
        return getattr(self._get(), name)

    def __eq__(self, o):
        return isinstance(o, _WorldProxy) or (isinstance(o, Comm) and o._cid == 0)

    def __ne__(self, o):
        return not self.__eq__(o)

    def __hash__(self):
        return hash(('comm', 0))

    def __repr__(self):
        return 'MPI.COMM_WORLD(sim)'


COMM_WORLD = _WorldProxy()


class _SelfProxy:
    """MPI.COMM_SELF: a single-member communicator of the calling rank."""

    def _get(self):
        w, r = simworld.current()
        if w is None:
            raise RuntimeError('MPI.COMM_SELF used outside a simulated rank')
        c = getattr(simworld._tls, 'comm_self', None)
        if c is None or c._world is not w:
            c = Comm(w, -1 - r, (r,), r)
            simworld._tls.comm_self = c
        return c

    def __getattr__(self, name):
        if name.startswith('__'):
            raise AttributeError(name)
        return getattr(self._get(), name)

    def __repr__(self):
        return 'MPI.COMM_SELF(sim)'


COMM_SELF = _SelfProxy()


def world_comm(world, r):
    return Comm(world, 0, world.world_members, r)


def __getattr__(name):
    if name.startswith('_'):
        raise AttributeError(name)
    raise SimUnsupported('simulated mpi4py.MPI has no attribute %s' % name)
