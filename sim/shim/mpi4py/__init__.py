"""Simulated mpi4py package (see MPI.py); shadows the installed one, which needs libmpi."""
__version__ = "sim"
