"""Determinism self-test of the simulator (DESIGN.md section 3.7).

For every check: the first K cases are executed (a) with 2 workers and (b) with 16
workers in fresh interpreters under two different PYTHONHASHSEED values; all
event-log digests, statuses and case keys must agree.  Each case is also re-run
from its tape in the same process (harness.determinism_check)."""
import json
import os
import subprocess
import sys
import tempfile
import time

import harness

CHECKS = ['C01', 'C02', 'C03', 'C04', 'C05', 'C06', 'C11', 'C15', 'C16', 'C17', 'C18']


def _digests(cid, count, seed, hashseed, jobs, tier):
    fd, path = tempfile.mkstemp(suffix='.json')
    os.close(fd)
    env = dict(os.environ)
    env.update(PYTHONHASHSEED=str(hashseed), VERIF_NO_EVIDENCE='1', VERIF_DIGEST_OUT=path, VERIF_SKIP_DET='1')
    p = subprocess.run([os.path.join(harness.VERIF, 'check'), cid, '--count', str(count), '--seed', str(seed),
                        '--jobs', str(jobs), '--tier', tier], capture_output=True, text=True, env=env,
                       timeout=1800)
    try:
        d = json.load(open(path))
    except Exception:
        d = None
    os.unlink(path)
    return p.returncode, d, p.stdout[-500:] + p.stderr[-500:]


def main(tier, seed, jobs):
    t0 = time.time()
    bad = 0
    total = 0
    for cid in CHECKS:
        if not os.path.exists(os.path.join(harness.VERIF, 'checks', cid.lower() + '.py')):
            continue
        mod = harness.load_check(cid)
        k = getattr(mod, 'SELFTEST', {'quick': 24, 'thorough': 400})[tier]
        runs = []
        for hs, j in ((0, 2), (1, 16), (77, 16)):
            rc, d, out = _digests(cid, k, seed, hs, j, 'quick')
            if d is None or rc not in (0,):
                print('SELFTEST %s: run (hashseed=%s jobs=%s) failed rc=%s %s' % (cid, hs, j, rc, out))
                bad += 1
                d = None
            runs.append(d)
        runs = [r for r in runs if r is not None]
        if len(runs) >= 2:
            same = all(r == runs[0] for r in runs[1:])
            total += len(runs[0])
            print('SELFTEST %s: %d cases x %d executions (hash seeds 0/1/77, 2 and 16 workers): %s' % (
                cid, len(runs[0]), len(runs), 'identical digests' if same else 'DIGESTS DIFFER'))
            if not same:
                bad += 1
                for a, b in zip(runs[0], runs[-1]):
                    if a != b:
                        print('   first difference:', a, b)
                        break
    import monitor_selftest
    bad += monitor_selftest.main()
    print('selftest: %d cases, %d problems, %.1fs' % (total, bad, time.time() - t0))
    return 0 if bad == 0 else 2
