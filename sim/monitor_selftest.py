"""Sensitivity self-test of the simulator's monitors: small deliberately faulty rank programs
must be classified as intended, correct ones must pass, in every completion mode."""
import numpy as np

import harness
import simworld


def _programs():
    from mpi4py import MPI

    def ok_ring(comm, rank):
        n = comm.Get_size()
        a = np.arange(4.0) + rank
        b = np.empty(4)
        comm.Sendrecv(a, (rank + 1) % n, 1, b, (rank - 1) % n, 1)
        s = comm.allreduce(rank, op=MPI.SUM)
        r = np.empty(n)
        comm.Allgather(np.array([float(rank)]), r)
        assert s == n * (n - 1) // 2 and list(r) == list(range(n)) and b[0] == (rank - 1) % n
        sub = comm.Split(rank % 2, rank)
        sub.Barrier()
        cart = comm.Create_cart([n], periods=[False])
        assert cart.Get_coords(rank) == [rank]
        return True

    def skip_bcast(comm, rank):
        if rank == 0:
            comm.bcast('x', root=0)
        return 1

    def skip_then_barrier(comm, rank):
        if rank == 0:
            comm.bcast('x', root=0)
        comm.Barrier()
        return 1

    def reduce_skip(comm, rank):
        if rank != 2:
            comm.reduce(1.0, op=MPI.MIN, root=0)
        return 1

    def order_swap(comm, rank):
        a = comm.Split(0, rank)
        if rank == 0:
            comm.Barrier()
            a.Barrier()
        else:
            a.Barrier()
            comm.Barrier()
        return 1

    def alias(comm, rank):
        x = np.zeros(6)
        comm.Alltoall(x[:3], x[:3])
        return 1

    def count_mismatch(comm, rank):
        n = comm.Get_size()
        s = np.zeros(n * (1 + (rank == 1)))
        r = np.zeros(n * (1 + (rank == 1)))
        comm.Alltoall(s, r)
        return 1

    def root_mismatch(comm, rank):
        comm.bcast('x', root=0 if rank < 2 else 1)
        return 1

    def head_on(comm, rank):
        if rank < 2:
            comm.send('x', 1 - rank)
            comm.recv(source=1 - rank)
        return 1

    def lost_message(comm, rank):
        if rank == 0:
            comm.isend('x', 1)
        return 1

    both = ('sync', 'eager')
    return [
        ('ok_ring', ok_ring, {m: {None} for m in both}),
        ('skip_bcast', skip_bcast, {'sync': {'deadlock'}, 'eager': {'unmatched-collective'}}),
        ('skip_then_barrier', skip_then_barrier, {m: {'collective-mismatch'} for m in both}),
        ('reduce_skip', reduce_skip, {m: {'deadlock', 'unmatched-collective'} for m in both}),
        ('order_swap', order_swap, {m: {'deadlock'} for m in both}),
        ('alias', alias, {m: {'buffer-alias'} for m in both}),
        ('count_mismatch', count_mismatch, {m: {'buffer-mismatch'} for m in both}),
        ('root_mismatch', root_mismatch, {m: {'collective-mismatch'} for m in both}),
        ('head_on', head_on, {'sync': {'deadlock'}, 'eager': {None}}),
        ('lost_message', lost_message, {m: {'unmatched-message'} for m in both}),
    ]


def main():
    harness.load_check('C01')
    bad = 0
    for name, fn, expect in _programs():
        for mode in ('sync', 'eager'):
            kinds = set()
            for seed in range(12):
                strat = simworld.STRATEGIES[seed % len(simworld.STRATEGIES)]
                r = harness.execute('SELFTEST', 3, simworld.default_sched(seed, mode=mode, strategy=strat,
                                                                          stall_p=0.2 if strat == 'bursty' else 0.0),
                                    None, fn)
                kinds.add(r['kind'])
            if not kinds <= expect[mode]:
                bad += 1
                print('MONITOR-SELFTEST %s (%s): classified %r, expected a subset of %r' % (name, mode, kinds, expect[mode]))
    print('monitor self-test: %d faulty/correct rank programs x 2 completion modes x 12 seeds, %d problems' % (
        len(_programs()), bad))
    return bad
