"""Seams: everything besides MPI through which the code under test meets the
outside world, routed to the simulator.  All patches are process-global but
inert outside a simulated rank thread (they check simworld.current()).

 * h5py.File(driver='mpio')  -> emulated parallel HDF5 on top of serial h5py
 * time.time / perf_counter   -> the rank's virtual (skewed) clock
 * os.mkdir / os.path.isdir / os.path.exists / glob.glob / open -> real calls,
   but scheduling points when made by pygyro / fullSimulation code
 * numpy.empty / empty_like   -> poisoned memory when made by pygyro code
 * sys.stdout                 -> discarded inside rank threads
"""
import builtins
import glob as _glob_mod
import os
import sys
import time as _time_mod

import numpy as np

import simworld
from simworld import Violation

_installed = False
_real = {}
REPO = None


_STDLIB_WRAPPERS = ('pathlib', 'shutil', 'os', 'posixpath', 'genericpath', 'glob', 'tempfile', 'json', 'io', 'codecs',
                    'fnmatch', 'ntpath', 'contextlib')


def _from_code_under_test(depth=2):
    """True when the innermost non-stdlib caller is pygyro / fullSimulation code (a call that goes
    through pathlib, shutil or os.makedirs still counts as made by the code under test)."""
    try:
        f = sys._getframe(depth)
    except ValueError:
        return False
    for _ in range(8):
        if f is None:
            return False
        name = f.f_globals.get('__name__', '')
        if name.startswith('pygyro') or name == 'fullSimulation':
            return True
        if name.split('.')[0] not in _STDLIB_WRAPPERS:
            return False
        f = f.f_back
    return False


# ---------------------------------------------------------------------------
# clock
# ---------------------------------------------------------------------------
def _sim_time():
    w, r = simworld.current()
    if w is None or not _from_code_under_test():
        return _real['time']()
    w.preempt(r, 'clock', ())
    return w.clock(r)


def _sim_perf_counter():
    w, r = simworld.current()
    if w is None or not _from_code_under_test():
        return _real['perf_counter']()
    w.preempt(r, 'clock', ())
    return w.clock(r)


def _mk_clock(name, scale=1.0, integer=False):
    def clock():
        w, r = simworld.current()
        if w is None or not _from_code_under_test():
            return _real[name]()
        w.preempt(r, 'clock', (name,))
        v = w.clock(r) * scale
        return int(v) if integer else v
    clock.__name__ = name
    return clock


# ---------------------------------------------------------------------------
# shared file system
# ---------------------------------------------------------------------------
def _fs_point(op, path):
    w, r = simworld.current()
    if w is not None and _from_code_under_test(3):
        w.preempt(r, 'fs', (op, os.path.basename(str(path))))


def _mkdir(path, *a, **k):
    _fs_point('mkdir', path)
    return _real['mkdir'](path, *a, **k)


def _isdir(path):
    _fs_point('isdir', path)
    return _real['isdir'](path)


def _exists(path):
    _fs_point('exists', path)
    return _real['exists'](path)


def _glob(pathname, *a, **k):
    _fs_point('glob', pathname)
    res = _real['glob'](pathname, *a, **k)
    w, r = simworld.current()
    if w is not None and w.sched.get('glob_shuffle') and len(res) > 1:
        # directory order is unspecified: present it in a seeded order
        res = sorted(res)
        w._shuffle(res)
        w.count_fault('glob-order')
    return res


_vmtime = {}


def _getmtime(path):
    _fs_point('getmtime', path)
    t = _vmtime.get(os.path.abspath(os.fspath(path)))
    if t is not None and _real['exists'](path):
        return t
    return _real['getmtime'](path)


def _mk_fs(name, op=None):
    def fs(path, *a, **k):
        _fs_point(op or name, path)
        return _real[name](path, *a, **k)
    fs.__name__ = name
    return fs


class _WrittenFile:
    """A file the code under test opened for writing: a scheduling point sits before the close, while the
    file already exists but what was written is still in the buffer (other ranks see it empty or partial)."""

    def __init__(self, f, path):
        object.__setattr__(self, '_f', f)
        object.__setattr__(self, '_path', path)

    def close(self):
        if not self._f.closed:
            _fs_point('close', self._path)
        return self._f.close()

    def __enter__(self):
        self._f.__enter__()
        return self

    def __exit__(self, *a):
        if not self._f.closed:
            _fs_point('close', self._path)
        return self._f.__exit__(*a)

    def __iter__(self):
        return iter(self._f)

    def __getattr__(self, name):
        return getattr(self._f, name)

    def __setattr__(self, name, value):
        setattr(self._f, name, value)


def _open(file, *a, **k):
    if isinstance(file, (str, bytes, os.PathLike)):
        _fs_point('open', file)
        mode = a[0] if a else k.get('mode', 'r')
        w, r = simworld.current()
        if w is not None and isinstance(mode, str) and any(c in mode for c in 'wax+') and _from_code_under_test(2):
            return _WrittenFile(_real['open'](file, *a, **k), file)
    return _real['open'](file, *a, **k)


# ---------------------------------------------------------------------------
# allocator: np.empty is allowed to return anything
# ---------------------------------------------------------------------------
def poison_array(arr):
    k = arr.dtype.kind
    if k == 'c':
        arr.fill(complex(np.nan, np.nan))
    elif k == 'f':
        arr.fill(np.nan)
    elif k in 'iu':
        info = np.iinfo(arr.dtype)
        arr.fill(-0x5A5A5A5A if info.min < -0x5A5A5A5A else info.max)
    elif k == 'b':
        arr.fill(True)
    return arr


def _empty(*a, **k):
    arr = _real['empty'](*a, **k)
    w, r = simworld.current()
    if w is not None and w.sched.get('poison') and _from_code_under_test():
        poison_array(arr)
        w.fault_counts['poisoned-allocations'] = w.fault_counts.get('poisoned-allocations', 0) + 1
    return arr


def _empty_like(*a, **k):
    arr = _real['empty_like'](*a, **k)
    w, r = simworld.current()
    if w is not None and w.sched.get('poison') and _from_code_under_test():
        poison_array(arr)
        w.fault_counts['poisoned-allocations'] = w.fault_counts.get('poisoned-allocations', 0) + 1
    return arr


# ---------------------------------------------------------------------------
# stdout
# ---------------------------------------------------------------------------
class _Stdout:
    def __init__(self, real):
        self._real_stream = real

    def write(self, s):
        if simworld.current()[0] is not None:
            return len(s)
        return self._real_stream.write(s)

    def flush(self):
        return self._real_stream.flush()

    def __getattr__(self, name):
        return getattr(self._real_stream, name)


# ---------------------------------------------------------------------------
# emulated parallel HDF5
# ---------------------------------------------------------------------------
class _SharedFile:
    def __init__(self, real, name, members):
        self.real = real
        self.name = name
        self.members = members
        self.owners = {}        # dataset name -> array of (last writing rank + 1)
        self.epochs = {}        # dataset name -> array of the writer's collective count at the time of the write
        self.conflict = None
        self.closed = False


class SimAttrs:
    def __init__(self, sds):
        self._sds = sds

    def create(self, name, data, shape=None, dtype=None):
        sds = self._sds
        dat = np.asarray(data)
        sig = (sds._name, name, dat.tobytes(), str(dat.dtype), repr(shape),
               str(getattr(dtype, 'dtype', dtype)))      # no object addresses in the event log

        def complete(p):
            sds._real().attrs.create(name, data, shape, dtype)
            return None
        sds._file._coll('h5attr', sig, None, complete)

    def __setitem__(self, name, value):
        self.create(name, value)

    def __getitem__(self, name):
        return self._sds._real().attrs[name]

    def __contains__(self, name):
        return name in self._sds._real().attrs

    def keys(self):
        return self._sds._real().attrs.keys()

    def get(self, name, default=None):
        return self._sds._real().attrs.get(name, default)

    def items(self):
        return self._sds._real().attrs.items()

    def values(self):
        return self._sds._real().attrs.values()

    def __iter__(self):
        return iter(self._sds._real().attrs)

    def __len__(self):
        return len(self._sds._real().attrs)

    def __getattr__(self, name):
        if name.startswith('__'):
            raise AttributeError(name)
        raise simworld.SimUnsupported('emulated h5py attributes have no %s' % name)


class SimDataset:
    def __init__(self, file, name):
        self._file = file
        self._name = name

    def _real(self):
        return self._file._shared.real[self._name]

    @property
    def attrs(self):
        return SimAttrs(self)

    @property
    def collective(self):
        return _NoOpContext()        # collective transfer mode: a hint, same data

    @property
    def shape(self):
        return self._real().shape

    @property
    def dtype(self):
        return self._real().dtype

    def __setitem__(self, key, value):
        f = self._file
        w, r = f._world, f._rank
        w.preempt(r, 'h5write', (os.path.basename(f._shared.name), self._name, repr(key)))
        ds = self._real()
        sh = f._shared
        owner = sh.owners.get(self._name)
        if owner is None:
            owner = sh.owners[self._name] = np.zeros(ds.shape, dtype=np.int32)
        try:
            prev_owner = np.array(owner[key])
            old = np.array(ds[key])
        except Exception:   # noqa  (exotic selection: skip the conflict bookkeeping)
            prev_owner = None
        ds[key] = value
        epoch = w.seqs.get((r, f._comm._cid), 0)          # collectives this rank has issued on the file's communicator
        ep = sh.epochs.get(self._name)
        if ep is None:
            ep = sh.epochs[self._name] = np.zeros(ds.shape, dtype=np.int64)
        if prev_owner is not None:
            new = np.array(ds[key])
            # concurrent = written by another rank with no collective on the file's communicator in between
            other = (prev_owner != 0) & (prev_owner != r + 1) & (np.array(ep[key]) >= epoch)
            # parallel HDF5 leaves overlapping independent writes of *different* ranks with
            # different data undefined; a rank rewriting its own region is fine
            if other.any() and new.shape == old.shape and (new[other].tobytes() != old[other].tobytes()):
                sh.conflict = dict(dataset=self._name, rank=r, other=int(prev_owner[other].flat[0]) - 1,
                                   region=repr(key))
            owner[key] = r + 1
            ep[key] = epoch

    def __getitem__(self, key):
        return self._real()[key]

    def __len__(self):
        return len(self._real())

    def __iter__(self):
        return iter(self._real())

    def write_direct(self, source, source_sel=None, dest_sel=None):
        key = dest_sel if dest_sel is not None else Ellipsis
        self[key] = source if source_sel is None else source[source_sel]

    def __getattr__(self, name):
        if name.startswith('__'):
            raise AttributeError(name)
        if name in ('resize', 'make_scale', 'flush', 'refresh'):
            raise simworld.SimUnsupported('emulated parallel dataset has no %s' % name)
        return getattr(self._real(), name)


class SimFile:
    """h5py.File(name, mode, driver='mpio', comm=c) as seen by one rank."""

    def __init__(self, name, mode, comm):
        w, r = simworld.current()
        self._world = w
        self._rank = r
        self._comm = comm
        self._mode = mode
        self._closed = False
        name = os.fspath(name)
        members = comm._members

        def complete(p):
            names = {os.path.abspath(x) for x in p}
            if len(names) != 1:
                raise Violation('collective-mismatch', dict(op='h5open', why='the members of the communicator open different paths collectively',
                                                            paths=sorted(os.path.relpath(x, os.path.dirname(os.path.dirname(os.path.abspath(name)))) for x in names)))
            if mode in ('r',):
                real = _real['h5File'](name, 'r')
            else:
                real = _real['h5File'](name, mode)
                w.no_abort_depth += 1
            sh = _SharedFile(real, name, members)
            return [sh] * len(p)
        self._shared = self._coll('h5open', (os.path.basename(name), mode), name, complete)

    def _coll(self, op, sig, payload, complete):
        c = self._comm
        return self._world.collective(self._rank, c._cid, c._members, op, sig, payload, complete)

    def create_dataset(self, name, shape=None, dtype=None, data=None, **kw):
        sh = self._shared
        shp = None if shape is None else tuple(int(x) for x in np.atleast_1d(shape))
        sig = (name, shp, None if dtype is None else str(np.dtype(dtype)),
               None if data is None else np.asarray(data).tobytes(), repr(sorted(kw.items())))

        def complete(p):
            sh.real.create_dataset(name, shape=shape, dtype=dtype, data=data, **kw)
            return None
        self._coll('h5create', sig, None, complete)
        return SimDataset(self, name)

    def require_dataset(self, name, shape=None, dtype=None, **kw):
        if name in self._shared.real:
            self._coll('h5require', (name, None if shape is None else tuple(int(x) for x in np.atleast_1d(shape)),
                                      None if dtype is None else str(np.dtype(dtype))), None, lambda p: None)
            return SimDataset(self, name)
        return self.create_dataset(name, shape=shape, dtype=dtype, **kw)

    def create_group(self, name):
        sh = self._shared

        def complete(p):
            sh.real.create_group(name)
            return None
        self._coll('h5group', (name,), None, complete)
        return SimGroup(self, name)

    def require_group(self, name):
        if name in self._shared.real:
            self._coll('h5group', (name,), None, lambda p: None)
            return SimGroup(self, name)
        return self.create_group(name)

    def get(self, name, default=None):
        return self[name] if name in self._shared.real else default

    def __iter__(self):
        return iter(self._shared.real)

    def __len__(self):
        return len(self._shared.real)

    def __getitem__(self, name):
        nm = name.lstrip('/') if name != '/' else name
        import h5py
        if nm in self._shared.real and isinstance(self._shared.real[nm], h5py.Group):
            return SimGroup(self, nm)
        return SimDataset(self, nm)

    def __contains__(self, name):
        return name in self._shared.real

    def keys(self):
        return self._shared.real.keys()

    @property
    def attrs(self):
        return self._shared.real.attrs

    def flush(self):
        pass

    def close(self):
        if self._closed:
            return
        self._closed = True
        sh = self._shared
        w = self._world
        mode = self._mode

        def complete(p):
            bad = None
            if mode != 'r' and sh.conflict is not None:
                bad = Violation('h5-conflicting-writes', dict(file=os.path.basename(sh.name), **sh.conflict))
            sh.real.close()
            sh.closed = True
            if mode != 'r':
                w.no_abort_depth -= 1
                # modification time as the file system would record it: the clock of the node whose rank
                # closes last (under clock skew not ordered like the simulation times)
                if len(_vmtime) > 20000:
                    _vmtime.clear()
                _vmtime[os.path.abspath(sh.name)] = w.clock(simworld.current()[1])
            if bad is not None:
                raise bad
            return None
        self._coll('h5close', (os.path.basename(sh.name),), None, complete)

    def __enter__(self):
        return self

    def __exit__(self, *a):
        self.close()

    @property
    def filename(self):
        return self._shared.name

    @property
    def mode(self):
        return self._mode

    def __getattr__(self, name):
        if name.startswith('__'):
            raise AttributeError(name)
        raise simworld.SimUnsupported('emulated parallel h5py.File has no %s' % name)


class SimGroup:
    """A group of an emulated parallel file: names are forwarded with the group's prefix."""

    def __init__(self, file, name):
        self._file = file
        self._prefix = name.strip('/')

    def _p(self, name):
        return self._prefix + '/' + name.lstrip('/')

    def create_dataset(self, name, *a, **k):
        return self._file.create_dataset(self._p(name), *a, **k)

    def require_dataset(self, name, *a, **k):
        return self._file.require_dataset(self._p(name), *a, **k)

    def create_group(self, name):
        return self._file.create_group(self._p(name))

    def __getitem__(self, name):
        return self._file[self._p(name)]

    def __contains__(self, name):
        return self._p(name) in self._file._shared.real

    def keys(self):
        return self._file._shared.real[self._prefix].keys()

    def __iter__(self):
        return iter(self._file._shared.real[self._prefix])

    @property
    def attrs(self):
        return self._file._shared.real[self._prefix].attrs

    def __getattr__(self, name):
        if name.startswith('__'):
            raise AttributeError(name)
        raise simworld.SimUnsupported('emulated h5py group has no %s' % name)


class _NoOpContext:
    def __enter__(self):
        return self

    def __exit__(self, *a):
        return False


def _h5File(name, mode='r', *a, **k):
    w, r = simworld.current()
    driver = k.get('driver')
    if w is None:
        return _real['h5File'](name, mode, *a, **k)
    if driver == 'mpio':
        comm = k.get('comm')
        if comm is None:
            from mpi4py import MPI
            comm = MPI.COMM_WORLD._get()
        elif not hasattr(comm, '_members'):
            comm = comm._get()
        return SimFile(name, mode, comm)
    w.preempt(r, 'fs', ('h5open-' + mode, os.path.basename(str(name))))
    return _real['h5File'](name, mode, *a, **k)


# ---------------------------------------------------------------------------
def install(repo=None):
    """Install all seams (idempotent) and make `pygyro` importable from `repo`."""
    global _installed, REPO
    if _installed:
        return
    repo = repo or os.environ.get('VERIF_REPO', '/repo')
    repo = os.path.abspath(repo)
    REPO = repo
    here = os.path.dirname(os.path.abspath(__file__))
    for p in (repo, here, os.path.join(here, 'shim')):
        if p in sys.path:
            sys.path.remove(p)
    sys.path.insert(0, repo)
    sys.path.insert(0, here)
    sys.path.insert(0, os.path.join(here, 'shim'))
    sys.dont_write_bytecode = True

    import h5py
    _real.update(time=_time_mod.time, perf_counter=_time_mod.perf_counter,
                 mkdir=os.mkdir, isdir=os.path.isdir, exists=os.path.exists,
                 glob=_glob_mod.glob, open=builtins.open,
                 empty=np.empty, empty_like=np.empty_like, h5File=h5py.File)
    _time_mod.time = _sim_time
    _time_mod.perf_counter = _sim_perf_counter
    for nm, scale, integer in (('monotonic', 1.0, False), ('process_time', 1.0, False), ('time_ns', 1e9, True),
                               ('monotonic_ns', 1e9, True), ('perf_counter_ns', 1e9, True)):
        if hasattr(_time_mod, nm):
            _real[nm] = getattr(_time_mod, nm)
            setattr(_time_mod, nm, _mk_clock(nm, scale, integer))
    for nm in ('makedirs', 'listdir', 'rename', 'replace', 'remove', 'unlink', 'rmdir'):
        _real[nm] = getattr(os, nm)
        setattr(os, nm, _mk_fs(nm))
    for nm in ('isfile', 'getsize', 'getmtime'):
        _real[nm] = getattr(os.path, nm)
        setattr(os.path, nm, _mk_fs(nm))
    os.path.getmtime = _getmtime
    os.mkdir = _mkdir
    os.path.isdir = _isdir
    os.path.exists = _exists
    _glob_mod.glob = _glob
    builtins.open = _open
    np.empty = _empty
    np.empty_like = _empty_like
    h5py.File = _h5File
    sys.stdout = _Stdout(sys.stdout)

    from mpi4py import MPI   # noqa: the simulated one
    assert getattr(MPI, 'world_comm', None) is not None, 'real mpi4py imported instead of the shim'
    import pygyro
    pf = os.path.abspath(pygyro.__file__)
    assert pf.startswith(repo + os.sep), 'pygyro imported from %s, expected below %s' % (pf, repo)
    _installed = True


def _real_listdir(path):
    return _real.get('listdir', os.listdir)(path)


def real_h5File(*a, **k):
    return _real['h5File'](*a, **k)


def real_open(*a, **k):
    return _real['open'](*a, **k)


def real_glob(*a, **k):
    return _real['glob'](*a, **k)
