"""Child interpreter of the C06 hash-seed sweep: reads a layout case (JSON) on stdin,
runs it on simulated ranks under this interpreter's PYTHONHASHSEED and prints the
digest of the per-rank collective traces."""
import json
import os
import sys

HERE = os.path.dirname(os.path.abspath(__file__))
sys.path.insert(0, HERE)
sys.path.insert(0, os.path.dirname(HERE))
import seams          # noqa: E402
seams.install()
import harness        # noqa: E402,F401
from checks import c06   # noqa: E402

print(json.dumps(c06.trace_digest(json.loads(sys.stdin.read()))))
