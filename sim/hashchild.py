"""Child interpreter of the hash-seed sweeps.  Reads JSON on stdin:
  a C06 layout case            -> digest of the per-rank collective traces (C06 kind "hashseed")
  {"check": id, "case": case}  -> the case of any check run under this interpreter's PYTHONHASHSEED;
                                  prints its status and per-rank traces (harness._trace_view)"""
import json
import os
import sys

HERE = os.path.dirname(os.path.abspath(__file__))
sys.path.insert(0, HERE)
sys.path.insert(0, os.path.dirname(HERE))
import seams          # noqa: E402
seams.install()
import harness        # noqa: E402,F401

req = json.loads(sys.stdin.read())
if isinstance(req, dict) and 'check' in req and 'case' in req:
    mod = harness.load_check(req['check'])
    res = harness.run_case(mod, req['case'])
    print(json.dumps(harness._trace_view(res)))
else:
    from checks import c06   # noqa: E402
    print(json.dumps(c06.trace_digest(req)))
