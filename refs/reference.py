"""Independent reference models (sequential, numpy/scipy only) against which the
distributed pygyro operators are compared.  Nothing here imports pygyro."""
from fractions import Fraction

import numpy as np
from numpy.polynomial.legendre import leggauss
from scipy.interpolate import BSpline, make_interp_spline


# ---------------------------------------------------------------------------
# equilibrium profiles (formulas of the model, re-implemented)
# ---------------------------------------------------------------------------
def n0(r, c):
    return c['CN0'] * np.exp(-c['kN0'] * c['deltaRN0'] * np.tanh((r - c['rp']) / c['deltaRN0']))


def Ti(r, c):
    return c['CTi'] * np.exp(-c['kTi'] * c['deltaRTi'] * np.tanh((r - c['rp']) / c['deltaRTi']))


def Te(r, c):
    return c['CTe'] * np.exp(-c['kTe'] * c['deltaRTe'] * np.tanh((r - c['rp']) / c['deltaRTe']))


def n0deriv_normalised(r, c):
    return -c['kN0'] * (1 - np.tanh((r - c['rp']) / c['deltaRN0']) ** 2)


def f_eq(r, v, c):
    """equilibrium distribution on the tensor grid r x v"""
    r = np.asarray(r, dtype=float)[:, None]
    v = np.asarray(v, dtype=float)[None, :]
    T = Ti(r, c)
    return n0(r, c) * np.exp(-0.5 * v * v / T) / np.sqrt(2.0 * np.pi * T)


def init_ref(eta, c):
    """initial distribution f_eq(r,v) (1 + eps exp(-(r-rp)^2/deltaR) cos(m theta + n z / R0)) on (r,theta,z,v)"""
    r, q, z, v = [np.asarray(x, dtype=float) for x in eta]
    pert = np.exp(-(r - c['rp']) ** 2 / c['deltaR'])[:, None, None] * \
        np.cos(c['m'] * q[None, :, None] + c['n'] * z[None, None, :] / c['R0'])
    return f_eq(r, v, c)[:, None, None, :] * (1.0 + c['eps'] * pert)[:, :, :, None]


def constants_dict(constants):
    out = {}
    for k in dir(constants):
        v = getattr(constants, k)
        if not callable(v) and k[0] != '_':
            out[k] = v
    return out


# ---------------------------------------------------------------------------
# clamped interpolating splines
# ---------------------------------------------------------------------------
def clamped_knots(breaks, p):
    breaks = np.asarray(breaks, dtype=float)
    return np.concatenate([[breaks[0]] * p, breaks, [breaks[-1]] * p])


def clamped_breaks(lo, hi, npts, p):
    return np.linspace(lo, hi, npts + 1 - p)


class ClampedInterp:
    """Spline of degree p on clamped knots interpolating data at the nodes x."""

    def __init__(self, x, breaks, p):
        # (interpolation points reported by the code may sit one ulp outside the domain after its rounding)
        self.x = np.clip(np.asarray(x, dtype=float), breaks[0], breaks[-1])
        self.T = clamped_knots(breaks, p)
        self.p = p
        self.A = BSpline.design_matrix(self.x, self.T, p).toarray()
        self.Ainv = np.linalg.inv(self.A)
        self.a, self.b = float(breaks[0]), float(breaks[-1])

    def coeffs(self, y):
        return np.linalg.solve(self.A, y)

    def spline(self, y):
        return BSpline(self.T, self.coeffs(y), self.p, extrapolate=False)

    def quadrature_weights(self):
        """w with  int_a^b S[y] = w . y  for every data vector y"""
        nb = self.A.shape[0]
        integ = np.array([BSpline(self.T, np.eye(nb)[j], self.p).integrate(self.a, self.b)
                          for j in range(nb)])
        return np.linalg.solve(self.A.T, integ)


def periodic_spline(x, y, period, k=3):
    """periodic spline of odd degree k interpolating y at the uniform nodes x (knots at the nodes)"""
    xe = np.append(x, x[0] + period)
    ye = np.append(y, y[0])
    return make_interp_spline(xe, ye, k=k, bc_type='periodic')


# ---------------------------------------------------------------------------
# density (C16)
# ---------------------------------------------------------------------------
def density_ref(F, eta, c, perturbed):
    """rho(r,theta,z) = int S[f(r,theta,z,.)] dv  (- same of f_eq(r,.) when perturbed)"""
    r, q, z, v = eta
    p = c['splineDegrees'][3]
    breaks = clamped_breaks(c['vMin'], c['vMax'], len(v), p)
    w = ClampedInterp(v, breaks, p).quadrature_weights()
    rho = F @ w
    if perturbed:
        rho = rho - (f_eq(r, v, c) @ w)[:, None, None]
    return rho


# ---------------------------------------------------------------------------
# parallel gradient (C13 formula) and v-parallel advection (C11)
# ---------------------------------------------------------------------------
def fd_weights(shifts):
    """exact first-derivative finite-difference weights on integer shifts"""
    n = len(shifts)
    A = [[Fraction(int(s)) ** i for s in shifts] for i in range(n)]
    b = [Fraction(0)] * n
    b[1] = Fraction(1)
    # Gaussian elimination in rationals
    M = [row[:] + [bi] for row, bi in zip(A, b)]
    for col in range(n):
        piv = next(i for i in range(col, n) if M[i][col] != 0)
        M[col], M[piv] = M[piv], M[col]
        pv = M[col][col]
        M[col] = [x / pv for x in M[col]]
        for i in range(n):
            if i != col and M[i][col] != 0:
                fct = M[i][col]
                M[i] = [x - fct * y for x, y in zip(M[i], M[col])]
    return np.array([float(M[i][n]) for i in range(n)])


def parallel_gradient_ref(phi, eta, c, order=6):
    """phi: real (r, z, theta).  Returns d/ds along the field line, same shape."""
    r, q, z = eta[0], eta[1], eta[2]
    nz, nq = len(z), len(q)
    dz = z[1] - z[0]
    n = order + 1
    start = 1 - (n + 1) // 2
    shifts = np.arange(n) + start
    wts = fd_weights(shifts)
    out = np.zeros_like(phi, dtype=float)
    iota = c['iotaVal']
    for i, ri in enumerate(r):
        bz = 1.0 / np.sqrt(1.0 + (ri * iota / c['R0']) ** 2)
        splines = [periodic_spline(q, phi[i, j, :], 2 * np.pi, int(c['splineDegrees'][1])) for j in range(nz)]
        for j in range(nz):
            acc = np.zeros(nq)
            for s, wgt in zip(shifts, wts):
                if wgt == 0.0:
                    continue
                th = np.mod(q + iota * dz * s / c['R0'], 2 * np.pi)
                acc += wgt * splines[(j + s) % nz](th)
            out[i, j, :] = acc * bz / dz
    return out


def vpar_advect_ref(F, speed, dt, eta, c, edge):
    """F: (r, z, theta, v); speed: (r, z, theta).  New nodal values = S[f](v - c dt)
    with the boundary rule of `edge` ('fEq' | 'null' | 'periodic').
    Returns (result, mask of nodes whose foot is safely away from a branch boundary)."""
    r, q, z, v = eta
    p = c['splineDegrees'][3]
    breaks = clamped_breaks(c['vMin'], c['vMax'], len(v), p)
    ci = ClampedInterp(v, breaks, p)
    vmin, vmax = v[0], v[-1]
    out = np.empty_like(F)
    safe = np.ones(F.shape, dtype=bool)
    width = vmax - vmin
    for idx in np.ndindex(*F.shape[:3]):
        S = ci.spline(F[idx])
        feet = v - speed[idx] * dt
        near = (np.abs(feet - vmin) < 1e-9 * width) | (np.abs(feet - vmax) < 1e-9 * width)
        safe[idx] = ~near
        if edge == 'periodic':
            # feet are brought back into [vmin, vmax] by whole periods; a foot that
            # lands within rounding distance of either end is a branch boundary
            ft = np.where((feet >= vmin) & (feet <= vmax), feet, vmin + np.mod(feet - vmin, width))
            near = (np.abs(ft - vmin) < 1e-9 * width) | (np.abs(ft - vmax) < 1e-9 * width)
            safe[idx] = ~near
            vals = S(np.clip(ft, vmin, vmax))
        else:
            inside = (feet >= vmin) & (feet <= vmax)
            vals = np.zeros_like(feet)
            vals[inside] = S(feet[inside])
            if edge == 'fEq':
                ri = r[idx[0]]
                T = Ti(ri, c)
                fe = n0(ri, c) * np.exp(-0.5 * feet * feet / T) / np.sqrt(2 * np.pi * T)
                vals[~inside] = fe[~inside]
        out[idx] = vals
    return out, safe


# ---------------------------------------------------------------------------
# quasi-neutrality (C15): dense Galerkin solve per mode (DESIGN.md Appendix A)
# ---------------------------------------------------------------------------
def qn_ref(R, eta, c, chi, adiabatic=True, degree=7, Bfield=1.0, Te_fn=None):
    """R: real or complex density (r, theta, z) -> potential (r, theta, z), complex."""
    r, q = eta[0], eta[1]
    p = int(c['splineDegrees'][0])
    breaks = clamped_breaks(c['rMin'], c['rMax'], len(r), c['splineDegrees'][0])
    T = clamped_knots(breaks, p)
    nb = len(T) - p - 1
    npt = degree // 2 + 1
    x, w = leggauss(npt)
    h = np.diff(breaks)
    pts = ((breaks[1:] + breaks[:-1]) * 0.5)[:, None] + x[None, :] * h[:, None] * 0.5
    wts = (w[None, :] * h[:, None] * 0.5).ravel()
    pts = pts.ravel()
    B = BSpline.design_matrix(pts, T, p).toarray()
    dB = np.stack([BSpline(T, np.eye(nb)[j], p).derivative()(pts) for j in range(nb)], axis=1)
    B0 = float(Bfield)                            # the driver uses the default B = 1
    Bc = -(1 / pts + n0deriv_normalised(pts, c))
    Cc = B0 * B0 / (Te(pts, c) if Te_fn is None else Te_fn(pts))
    Dc = -1 / pts ** 2
    Ec = B0 * B0 / n0(pts, c)

    def Mx(fac, U, V, rweight=True):   # M[i,j] = int fac U_j V_i (r) dr
        ww = wts * fac * (pts if rweight else 1.0)
        return (V * ww[:, None]).T @ U
    one = np.ones_like(pts)
    mass = Mx(Ec, B, B)
    k2 = Mx(Dc, B, B)
    PhiPsi = Mx(Cc, B, B) if adiabatic else np.zeros((nb, nb))
    dd = Mx(one, dB, dB) + Mx(one, dB, B, rweight=False)       # -A with A = -1
    dP = Mx(Bc, dB, B)
    stiff = dd + dP + PhiPsi
    if adiabatic:
        stiff0 = stiff if chi == 0 else dd + dP
    else:
        stiff0 = stiff
    nq = len(q)
    mvals = np.fft.fftfreq(nq, 1 / nq)
    Rh = np.fft.fft(R, axis=1)
    Acol = BSpline.design_matrix(r, T, p).toarray()
    out = np.zeros(Rh.shape, dtype=complex)
    for im, m in enumerate(mvals):
        lo = 0 if m == 0 else 1
        sl = slice(lo, nb - 1)
        K = (stiff0 if m == 0 else stiff - m * m * k2)[sl, sl]
        for k in range(R.shape[2]):
            rc = np.linalg.solve(Acol, Rh[:, im, k])
            cf = np.zeros(nb, complex)
            cf[sl] = np.linalg.solve(K, (mass @ rc)[sl])
            out[:, im, k] = Acol @ cf
    return np.fft.ifft(out, axis=1)


# ---------------------------------------------------------------------------
# diagnostics (C17): serial trapezoid / rectangle quadrature of the global field
# ---------------------------------------------------------------------------
def trap_weights(x):
    x = np.asarray(x, dtype=float)
    d = np.diff(x)
    return np.concatenate([[d[0] * 0.5], (d[1:] + d[:-1]) * 0.5, [d[-1] * 0.5]])


def diagnostics_ref(F, eta):
    """F real (r,theta,z,v): l2 squared, l1, particle number, kinetic energy and the
    sums of absolute terms (for rounding bounds)."""
    r, q, z, v = eta
    wr = trap_weights(r) * r
    wv = trap_weights(v)
    dq = q[2] - q[1]
    dz = z[2] - z[1]
    W = wr[:, None, None, None] * wv[None, None, None, :] * dq * dz
    out = dict(l2=float((F * F * W).sum()), l1=float((np.abs(F) * W).sum()), n=float((F * W).sum()),
               ke=float(0.5 * (F * W * v[None, None, None, :] ** 2).sum()))
    mag = dict(l2=out['l2'], l1=out['l1'], n=out['l1'],
               ke=float(0.5 * (np.abs(F) * W * v[None, None, None, :] ** 2).sum()))
    return out, mag


def l2_phi_ref(PHI, eta):
    """PHI complex (r,theta,z): squared l2 norm with weights r dr dtheta dz"""
    r, q, z = eta[0], eta[1], eta[2]
    wr = trap_weights(r) * r
    dq = q[2] - q[1]
    dz = z[2] - z[1]
    return float((np.real(PHI * np.conj(PHI)) * wr[:, None, None]).sum() * dq * dz)
