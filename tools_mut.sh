#!/bin/sh
# usage: tools_mut.sh <check id> <count> <sed-expr> <file>   -- scratch mutant of /repo, run a check against it
rm -rf /tmp/mut && mkdir /tmp/mut && rsync -a --exclude .git /repo/ /tmp/mut/
cd /tmp/mut && sed -i "$3" "$4" && (diff -u /repo/$4 /tmp/mut/$4 | head -20)
cd /verif && VERIF_REPO=/tmp/mut VERIF_NO_EVIDENCE=1 ./check $1 --count $2 2>&1 | tail -6
rm -rf /tmp/mut
