"""Line-reach report: run a sample of every check's cases in-process under
coverage.py restricted to the anchored pygyro files; print lines never hit.
usage: /venv/bin/python tools/reach.py [count-per-check] [ids...]"""
import os
import sys
HERE = os.path.dirname(os.path.dirname(os.path.abspath(__file__)))
sys.path.insert(0, os.path.join(HERE, 'sim'))
sys.path.insert(0, HERE)
os.environ.setdefault('PYTHONHASHSEED', '0')
import coverage

repo = os.path.abspath(os.environ.get('VERIF_REPO', '/repo'))
files = ['pygyro/model/layout.py', 'pygyro/model/grid.py', 'pygyro/advection/advection.py',
         'pygyro/poisson/poisson_solver.py', 'pygyro/diagnostics/norms.py', 'pygyro/diagnostics/energy.py',
         'pygyro/diagnostics/diagnostic_collector.py', 'pygyro/utilities/savingTools.py',
         'pygyro/initialisation/setups.py', 'pygyro/initialisation/constants.py',
         'pygyro/initialisation/initialiser.py', 'fullSimulation.py']
cov = coverage.Coverage(include=[os.path.join(repo, f) for f in files], data_file=None)
cov.start()
import harness
n = int(sys.argv[1]) if len(sys.argv) > 1 else 20
ids = sys.argv[2:] or ['C01', 'C02', 'C03', 'C04', 'C05', 'C06', 'C11', 'C15', 'C16', 'C17', 'C18']
for cid in ids:
    mod = harness.load_check(cid)
    k = n if cid not in ('C05',) else max(2, n // 8)
    bad = 0
    for i in range(k):
        case = harness.gen_case(mod, 0, 'quick', i)
        if case.get('kind') == 'hashseed':
            continue
        res = harness.run_case(mod, case)
        if res['status'] not in ('ok', 'skip', 'aborted'):
            bad += 1
    print(cid, 'ran', k, 'bad', bad, flush=True)
cov.stop()
for f in files:
    path = os.path.join(repo, f)
    try:
        _, stmts, _, missing, _ = cov.analysis2(path)
    except Exception as e:
        print(f, 'no data', e)
        continue
    print('%-48s %4d stmts, %3d never hit: %s' % (f, len(stmts), len(missing), missing))
