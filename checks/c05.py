"""C05 - simulation results do not depend on the process decomposition
(DESIGN.md section 6)."""
import numpy as np

import simworld
from harness import Multi, OracleFail, Skip, Scratch
from checks import common as cm
from checks import phys

ID = 'C05'
HASHSEED_EVERY = {'quick': 40, 'thorough': 60}     # one case in so many is also run under other string-hash seeds (harness._run_hashseed_invariant)
HASHSEED_N = 2          # child interpreters per such case (a C05 case costs seconds)
BUDGET = {'quick': 80, 'thorough': 6000}
REACH_N = 6
DET_K = 2
WALL = {'quick': 150, 'thorough': 2400}
CHUNK = 2
CASE_TIMEOUT = 600
SELFTEST = {'quick': 4, 'thorough': 64}
TOL = 1e-11
REQUIRED_PROBES = ['iota_nonzero', 'iota_zero', 'start_flux_surface', 'start_v_parallel', 'start_poloidal']
RULE = ("Every check: in 12% of the cases one or two bystander ranks share the simulated job and the code under test runs on world.Split(...); one case in HASHSEED_EVERY is re-run in fresh interpreters under other string-hash seeds and every rank's trace (collectives, data sent, result) must agree. "
        'Also: spline degrees other than cubic (20%), optional operator arguments (40%: gradient order, zDegree, nulEdge, density quadrature degree), the poloidal step that reuses the potential splines as a stage of its own, explicit rp / rMin / rMax in the hash-seed cases. '
        'case = (grid sizes in [5..9]^4 with nz >= 7, amplified constants [small R0, iota zero or not, '
        'eps 1e-3..1e-1, random m, n, dt], starting layout, seeded smooth+noise perturbation of f and a '
        'seeded real O(1) potential, the serial process grid (1,1) plus 2-3 further admissible grids '
        '[favouring (1,n), (n,1), square and non-dividing ones, P <= 12], schedule/fault configuration '
        'per World).  Every World runs: initialise, flux-surface step, v-parallel step (+ parallel '
        'gradient table), keep-gradient step, poloidal step, perturbed density, quasi-neutrality solve, '
        'one complete Strang step.  Oracle 1: each assembled global field equals the serial run\'s '
        'within 1e-11 max|field|.  Oracle 2 (serial World): each grid-level operator equals the '
        'per-slice kernel applied by the harness with the slice\'s own global indices/coordinates. '
        'non-trivial = at least one World with P > 1 completed; distinct = distinct (sizes, constants, '
        'grids, layout, seeds) tuples')
ASSUMPTIONS = ['integer dt; grid sizes above the stencil widths; every rank owns >= 1 point']

STAGES = ['init', 'flux', 'vpar', 'pargrad', 'keep', 'pol', 'pol_same', 'rho', 'phi', 'f_end', 'phi_end']


def gen(rng, tier, idx):
    ckw = phys.gen_constants(rng, amplified=True)
    npts = ckw['npts']
    if rng.random() < 0.2:
        # spline degrees other than the shipped cubic ones (each dimension has its own)
        ckw['splineDegrees'] = [rng.choice([3, 2, 4, 5]) for _ in range(4)]
        if (ckw['splineDegrees'][0] == 3) != (ckw['splineDegrees'][1] == 3):
            # the 2-D poloidal spline wants both of its bases of one kind (uniform cubic or general)
            ckw['splineDegrees'][rng.randrange(2)] = ckw['splineDegrees'][0] if ckw['splineDegrees'][0] != 3 else ckw['splineDegrees'][1]
            if (ckw['splineDegrees'][0] == 3) != (ckw['splineDegrees'][1] == 3):
                ckw['splineDegrees'][0] = ckw['splineDegrees'][1] = rng.choice([2, 4, 5])
        for d in range(4):
            npts[d] = max(npts[d], ckw['splineDegrees'][d] + 3)
    k = rng.choice([2, 2, 3])
    grids = [[1, 1]] + phys.pick_grids(rng, npts, k)
    sched = simworld.random_sched(rng, 0)
    sched['poison'] = rng.random() < 0.7
    return dict(P=max(g[0] * g[1] for g in grids), ckw=ckw, grids=grids,
                start=rng.choice(['flux_surface', 'v_parallel', 'poloidal']),
                fseed=rng.randrange(1 << 30), phiamp=rng.choice([0.3, 1.0, 3.0]),
                strang=True, opts=phys.gen_operator_options(rng, npts) if rng.random() < 0.4 else {}, sched=sched)


def make_rank_fn(case, g, serial_oracle):
    ckw = case['ckw']
    npts = ckw['npts']

    def rank_fn(comm, rank):
        from pygyro.splines.splines import Spline2D
        from pygyro.splines.spline_interpolators import SplineInterpolator2D
        w = simworld.current()[0]
        f, constants = phys.setup_f(comm, ckw, case['start'], allocateSaveMemory=True)
        out = {}
        out['init'] = phys.block(f)
        if serial_oracle:
            # the initial condition must not depend on the starting layout, and equals the model's formula
            from refs import reference as ref
            F0 = phys.assemble([out['init']], npts, 'init')
            for other in ('flux_surface', 'v_parallel', 'poloidal'):
                if other != case['start']:
                    g2, _ = phys.setup_f(comm, ckw, other)
                    Fo = phys.assemble([phys.block(g2)], npts, 'init ' + other)
                    if not (phys.relerr(Fo, F0) <= 1e-13):
                        raise OracleFail('init-layout-dependent', dict(layouts=[case['start'], other],
                                                                       relerr=phys.relerr(Fo, F0)))
            want = ref.init_ref([np.asarray(e) for e in f.eta_grid], ref.constants_dict(constants))
            if not (phys.relerr(F0, want) <= 1e-12):
                raise OracleFail('init-differs', dict(layout=case['start'], relerr=phys.relerr(F0, want)))
        lay = f.getLayout(f.currentLayout)
        pert = phys.smooth_noise(npts, case['fseed'], amp=0.2)
        f.getAllData()[:] *= (1.0 + cm.local(pert, lay))
        phys.check_forced(f, g)
        pipe = phys.Pipeline(comm, f, constants, opts=case.get('opts'))
        pipe.parGradVals[:] = np.nan
        phi = pipe.phi
        PHI = case['phiamp'] * phys.smooth_noise(npts[:3], case['fseed'] + 17, amp=1.0)
        phi.getAllData()[:] = cm.local(PHI, phi.getLayout('mode_solve'))
        half = pipe.halfStep
        eta = f.eta_grid

        # flux-surface advection -------------------------------------------
        f.setLayout('flux_surface')
        if serial_oracle:
            ref = np.array(f.getAllData(), copy=True)
        pipe.fluxAdv.gridStep(f)
        out['flux'] = phys.block(f)
        if serial_oracle:
            for i in range(ref.shape[0]):          # r (global == local in the serial run)
                for j in range(ref.shape[1]):      # v
                    pipe.fluxAdv.step(ref[i, j], j, i)
            _same(f.getAllData(), ref, 'flux-surface gridStep vs per-slice step(f[r,v], vIdx, rIdx)')

        # v-parallel advection with parallel gradient ---------------------------
        f.setLayout('v_parallel')
        phi.setLayout('v_parallel_1d')
        if serial_oracle:
            ref = np.array(f.getAllData(), copy=True)
            phi_full = np.real(np.array(phi.getAllData(), copy=True))      # (r, z, theta)
        pipe.vParAdv.gridStep(f, phi, pipe.parGrad, pipe.parGradVals, half)
        out['vpar'] = phys.block(f)
        l1d = phi.getLayout('v_parallel_1d')
        out['pargrad'] = ([0, 2, 1], [int(l1d.starts[0]), 0, 0], [int(l1d.ends[0]), npts[2], npts[1]],
                          np.array(pipe.parGradVals, copy=True))
        if serial_oracle:
            grad = np.empty_like(phi_full)
            for i, r in enumerate(eta[0]):
                pipe.parGrad.parallel_gradient(phi_full[i], i, grad[i])
                for j in range(ref.shape[1]):          # z
                    for k in range(ref.shape[2]):      # theta
                        pipe.vParAdv.step(ref[i, j, k], half, grad[i, j, k], r)
            _same(pipe.parGradVals, grad, 'parallel-gradient table')
            _same(f.getAllData(), ref, 'v-parallel gridStep vs per-line step with the gradient at the same (r,z,theta)')
            ref2 = np.array(f.getAllData(), copy=True)
        pipe.vParAdv.gridStepKeepGradient(f, pipe.parGradVals, half)
        out['keep'] = phys.block(f)
        if serial_oracle:
            for i, r in enumerate(eta[0]):
                for j in range(ref2.shape[1]):
                    for k in range(ref2.shape[2]):
                        pipe.vParAdv.step(ref2[i, j, k], half, grad[i, j, k], r)
            _same(f.getAllData(), ref2, 'gridStepKeepGradient vs per-line step')

        # poloidal advection ---------------------------------------------------
        f.setLayout('poloidal')
        phi.setLayout('poloidal')
        if serial_oracle:
            ref = np.array(f.getAllData(), copy=True)            # (v, z, theta, r)
            phi_p = np.real(np.array(phi.getAllData(), copy=True))   # (z, theta, r)
        pipe.polAdv.gridStep(f, phi, half)
        out['pol'] = phys.block(f)
        if serial_oracle:
            sp = f.getSpline(slice(1, None, -1))
            interp = SplineInterpolator2D(sp[0], sp[1])
            for j in range(ref.shape[1]):              # z
                s2 = Spline2D(sp[0], sp[1])
                interp.compute_interpolant(phi_p[j], s2)
                for i, v in enumerate(eta[3]):
                    pipe.polAdv.step(ref[i, j], half, s2, v)
            _same(f.getAllData(), ref, 'poloidal gridStep vs per-plane step with the potential of the same z and the same v')

        # the variant that reuses the potential splines of the previous poloidal step (same potential, next sub-step)
        if serial_oracle:
            ref = np.array(f.getAllData(), copy=True)
        pipe.polAdv.gridStep_SplinesUnchanged(f, half)
        out['pol_same'] = phys.block(f)
        if serial_oracle:
            for j in range(ref.shape[1]):              # z
                s2 = Spline2D(sp[0], sp[1])
                interp.compute_interpolant(phi_p[j], s2)
                for i, v in enumerate(eta[3]):
                    pipe.polAdv.step(ref[i, j], half, s2, v)
            _same(f.getAllData(), ref, 'poloidal gridStep_SplinesUnchanged vs per-plane step with the potential of the same z')

        # density and quasi-neutrality -----------------------------------------------
        f.setLayout('v_parallel')
        pipe.density.getPerturbedRho(f, pipe.rho)
        out['rho'] = phys.block(pipe.rho)
        pipe.QN.getModes(pipe.rho)
        pipe.rho.setLayout('mode_solve')
        phi.setLayout('mode_solve')
        pipe.QN.solveEquation(phi, pipe.rho)
        phi.setLayout('v_parallel_2d')
        pipe.rho.setLayout('v_parallel_2d')
        pipe.QN.findPotential(phi)
        out['phi'] = phys.block(phi)

        # one complete Strang step (the driver's loop body) -----------------------------
        if case.get('strang', True):
            pipe.strang_step()
            out['f_end'] = phys.block(f)
            out['phi_end'] = phys.block(phi)
        return out

    return rank_fn


def _same(got, want, what, tol=1e-13):
    e = phys.relerr(np.asarray(got), np.asarray(want))
    if not (e <= tol):
        raise OracleFail('slice-reference', dict(what=what, relerr=e))


def run(case, tape=None):
    M = Multi(ID, tape)
    npts = case['ckw']['npts']
    fields = []
    shapes = dict(init=npts, flux=npts, vpar=npts, keep=npts, pol=npts, pol_same=npts, f_end=npts,
                  pargrad=npts[:3], rho=npts[:3], phi=npts[:3], phi_end=npts[:3])
    for gi, g in enumerate(case['grids']):
        P = g[0] * g[1]
        holder = {}

        def post(w, results, holder=holder):
            glob = {}
            for st in STAGES:
                if st in results[0]:
                    try:
                        glob[st] = phys.assemble([r[st] for r in results], shapes[st], what=st)
                    except OracleFail:
                        if st != 'pargrad':
                            raise
                        # the gradient table is an internal hand-over between driver and operator;
                        # its layout is not part of the property - the advected field is
                        w.probe('gradient_table_layout_unknown')
            holder['glob'] = glob
            return dict(probes={'grid_%dx%d' % (g[0], g[1]): 1, 'worlds_P%d' % P: 1})
        with phys.force_procs({P: g}):
            res = M.run(P, case['sched'], make_rank_fn(case, g, serial_oracle=(gi == 0)), post)
        if res['status'] != 'ok':
            break
        fields.append(holder['glob'])

    def oracle():
        ref = fields[0]
        worst = 0.0
        for gi in range(1, len(fields)):
            for st in STAGES:
                if st not in ref or st not in fields[gi]:
                    continue
                e = phys.relerr(fields[gi][st], ref[st])
                worst = max(worst, e)
                if not (e <= TOL):
                    raise OracleFail('decomposition-dependent', dict(
                        stage=st, grid=case['grids'][gi], relerr=e,
                        max_abs=float(np.max(np.abs(ref[st]))), iota=case['ckw'].get('iotaVal')))
        probes = {}
        if case['ckw'].get('iotaVal'):
            probes['iota_nonzero'] = 1
        else:
            probes['iota_zero'] = 1
        probes['start_' + case['start']] = 1
        if worst == 0.0:
            probes['bit_identical_across_grids'] = 1
        return dict(nontrivial=len(fields) > 1, probes=probes)

    return M.finish(oracle=oracle)


def shrink(case):
    if len(case['grids']) > 2:
        for i in range(1, len(case['grids'])):
            yield dict(case, grids=[case['grids'][0], case['grids'][i]])
    if case.get('strang', True):
        yield dict(case, strang=False)
    if case['ckw'].get('iotaVal'):
        c = dict(case)
        c['ckw'] = dict(case['ckw'], iotaVal=0.0)
        yield c
    if case['ckw'].get('splineDegrees') and case['ckw']['splineDegrees'] != [3, 3, 3, 3]:
        c = dict(case)
        c['ckw'] = dict(case['ckw'], splineDegrees=[3, 3, 3, 3])
        yield c
    for d in range(4):
        lo = max(7 if d == 2 else 5, (case['ckw'].get('splineDegrees') or [3, 3, 3, 3])[d] + 3)
        if case['ckw']['npts'][d] > lo:
            n2 = list(case['ckw']['npts'])
            n2[d] -= 1
            c = dict(case)
            c['ckw'] = dict(case['ckw'], npts=n2)
            ok = all(g in phys.admissible_grids(n2) for g in case['grids'])
            if ok:
                yield c


_gen_plain = gen


def gen(rng, tier, idx):
    case = _gen_plain(rng, tier, idx)
    if True:
        cm.maybe_bystanders(rng, case['sched'], case['P'])
    every = HASHSEED_EVERY.get(tier)
    if every and idx % every == every // 2:
        # the cases that are also run under other string-hash seeds pass several interdependent constants
        # as keywords (the radial bounds and the explicit position of the profile peak between them)
        ckw = case['ckw']
        ckw.setdefault('rMin', 0.5)
        ckw.setdefault('rMax', 9.0)
        ckw.setdefault('rp', round(ckw['rMin'] + 0.3 * (ckw['rMax'] - ckw['rMin']), 4))
    return case
