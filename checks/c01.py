"""C01 - layout transposes preserve the global field (DESIGN.md section 6)."""
import numpy as np

import simworld
from harness import execute, OracleFail, Skip
from checks import common as cm

ID = 'C01'
HASHSEED_EVERY = {'quick': 1500, 'thorough': 5000}     # one case in so many is also run under other string-hash seeds (harness._run_hashseed_invariant)
BUDGET = {'quick': 30000, 'thorough': 1500000}
WALL = {'quick': 100, 'thorough': 1500}
CHUNK = 60
REQUIRED_PROBES = ['route_len_1', 'route_len_2', 'route_len_3', 'with_buffer', 'without_buffer', 'padded_block', 'extent_eq_procs', 'leading_extent_1', 'arrays_reused_across_transposes']
RULE = ("Every check: in 12% of the cases one or two bystander ranks share the simulated job and the code under test runs on world.Split(...); one case in HASHSEED_EVERY is re-run in fresh interpreters under other string-hash seeds and every rank's trace (collectives, data sent, result) must agree. "
        'Also: 8% of the shapes have an extent below the process count (judged for silently wrong data only), arrays reused across transposes in 30%, fresh str objects for the layout names at every call, some requests repeated later on the same handler (40%), 7-13 processes along one direction (4%). '
        'case = (array rank 2-4, global shape, process grid incl. leading extent 1, 1-6 dimension '
        'orderings, payload dtype, list of (source, destination, buffer?) transposes, schedule/fault '
        'configuration), all drawn from the case seed; every rank builds the LayoutHandler and performs '
        'each transpose on unique-valued data, compared bit for bit with the slice of the global array. '
        'non-trivial = accepted by the constructor, P > 1 and at least one Alltoall was exchanged; '
        'distinct = distinct (shape, grid, layouts, dtype, transposes) tuples')
ASSUMPTIONS = ['what must be where is derived from the Layout tables the code reports; that these '
               'tables tile the global array exactly is checked in the same World (and under C02)']


def gen_base(rng, tier, idx, allow_underfull=False):
    ndim = rng.choice([2, 3, 3, 4, 4, 4])
    nprocs = cm.gen_nprocs(rng, ndim, maxP=16, wide=True) if tier == 'thorough' else cm.gen_nprocs(rng, ndim)
    nlay = rng.choice([1, 2, 2, 3, 3, 3, 4, 4, 5, 6])
    orders = cm.gen_layout_chain(rng, ndim, nlay, len(nprocs))
    shape = cm.gen_shape(rng, ndim, nprocs, orders)
    underfull = False
    if allow_underfull and rng.random() < 0.08:
        # an extent smaller than the number of processes it is spread over: some ranks own nothing
        # ("all global shapes": the handler accepts these, the drivers' process-grid search does not)
        cand = [(o[j], p) for o in orders for j, p in enumerate(nprocs) if p > 1]
        if cand:
            d, p = rng.choice(cand)
            shape[d] = rng.randint(1, p - 1)
            underfull = True
    names = cm.LAYOUT_NAMES[:nlay]
    if rng.random() < 0.3:
        rng.shuffle(names)
    layouts = [[n, o] for n, o in zip(names, orders)]
    pairs = [(a, b) for a in names for b in names]
    if len(pairs) > 20:
        pairs = rng.sample(pairs, 20)
    ops = [[a, b, bool(rng.random() < 0.5)] for a, b in pairs]
    rng.shuffle(ops)
    if rng.random() < 0.4 and ops:
        # the same requests again later on the same handler (nothing a request leaves behind may change the next)
        again = [[a, b, bool(rng.random() < 0.5)] for a, b, _ in rng.sample(ops, min(len(ops), rng.randint(1, 6)))]
        ops = (ops + again)[:26]
    return dict(P=int(np.prod(nprocs)), nprocs=nprocs, shape=shape, layouts=layouts,
                dtype=rng.choice(['float64', 'float64', 'complex128', 'int64']),
                ops=ops, extra=rng.choice([0, 0, 0, 1, 5]), reuse=rng.random() < 0.3, underfull=underfull,
                sched=_sched(rng))


def _sched(rng):
    s = simworld.random_sched(rng, 0)
    s['poison'] = rng.random() < 0.7
    return s


def build_handler(comm, case):
    from pygyro.model.layout import getLayoutHandler
    eta = [np.arange(n, dtype=float) for n in case['shape']]
    layouts = {n: list(o) for n, o in case['layouts']}
    try:
        return getLayoutHandler(comm, layouts, list(case['nprocs']), eta)
    except Exception as e:   # noqa
        # a set of orderings that cannot be connected by single-axis swaps is refused (any exception
        # type, any message, but on every rank); a connected set must be accepted
        if not cm.layouts_connected([o for _, o in case['layouts']], case['nprocs']):
            raise Skip('%s: %s' % (type(e).__name__, e))
        raise


def route_len(handler, a, b):
    if a == b:
        return 0
    try:
        return len(handler._route_map[a][b])
    except Exception:
        return -1


def do_transposes(manager, case, world, rank, exact_buffers=False):
    """Perform every transpose of the case on this rank and check the result."""
    dt = cm.np_dtype(case['dtype'])
    bsize = int(manager.bufferSize)
    need = max(int(manager.getLayout(n).size) for n, _ in case['layouts'])
    if bsize < need:
        if exact_buffers:
            raise OracleFail('buffer-size', dict(bufferSize=bsize, largest_block=need, rank=rank,
                                                 why='the advertised buffer size is smaller than a layout\'s block'))
        bsize = need            # (C01 does not speak of bufferSize: give the transposes what the blocks need)
    extra = 0 if exact_buffers else int(case.get('extra', 0))
    reuse = bool(case.get('reuse'))
    if reuse:
        # the same three arrays through the whole sequence (as Grid does): whatever an earlier transpose
        # left behind is still there, instead of fresh poisoned memory
        arrs = [cm.poison(np.empty(bsize + extra, dtype=dt)) for _ in range(3)]
    for step, (src, dst, use_buf) in enumerate(case['ops']):
        ls = manager.getLayout(src)
        ld = manager.getLayout(dst)
        G = cm.global_array(case['shape'], case['dtype'], salt=step)
        if reuse:
            source, dest, third = arrs[step % 3], arrs[(step + 1) % 3], arrs[(step + 2) % 3]
            buf = third if use_buf else None
        else:
            source = cm.poison(np.empty(bsize + extra, dtype=dt))
            dest = cm.poison(np.empty(bsize + extra, dtype=dt))
            buf = cm.poison(np.empty(bsize + extra, dtype=dt)) if use_buf else None
        want_src = cm.local(G, ls)
        source[:ls.size] = want_src.ravel()
        manager.transpose(source, dest, cm.fresh(src), cm.fresh(dst), buf)
        want = cm.local(G, ld)
        got = dest[:ld.size].reshape(ld.shape)
        if not cm.bits_equal(got, want):
            raise OracleFail('wrong-data', dict(step=step, src=src, dst=dst, buf=use_buf, rank=rank,
                                                diff=cm.first_diff(got, want)))
        if use_buf and not cm.bits_equal(source[:ls.size].reshape(ls.shape), want_src):
            raise OracleFail('source-clobbered', dict(step=step, src=src, dst=dst, rank=rank,
                                                      diff=cm.first_diff(source[:ls.size].reshape(ls.shape), want_src)))
        if rank == 0:
            world.probe('route_len_%d' % route_len(manager, src, dst))
            world.probe('with_buffer' if use_buf else 'without_buffer')


def layout_tables(manager, names):
    out = {}
    for n in names:
        l = manager.getLayout(n)
        out[n] = dict(dims_order=[int(x) for x in l.dims_order], starts=[int(x) for x in l.starts],
                      ends=[int(x) for x in l.ends], shape=[int(x) for x in l.shape],
                      size=int(l.size))
    return out


def check_tiling(case, results):
    """Cross-rank: the blocks reported by all ranks tile the global index space."""
    shape = case['shape']
    for name, order in case['layouts']:
        cover = np.zeros([shape[d] for d in order], dtype=np.int32)
        for r, res in enumerate(results):
            t = res['tables'][name]
            sl = tuple(slice(s, e) for s, e in zip(t['starts'], t['ends']))
            cover[sl] += 1
        if not (cover == 1).all():
            raise OracleFail('partition', dict(layout=name, why='blocks of all ranks do not tile the array exactly once',
                                               min=int(cover.min()), max=int(cover.max())))


def run(case, tape=None):
    P = case['P']
    names = [n for n, _ in case['layouts']]

    def rank_fn(comm, rank):
        w = simworld.current()[0]
        h = build_handler(comm, case)
        do_transposes(h, case, w, rank)
        return dict(tables=layout_tables(h, names))

    def post(w, results):
        check_tiling(case, results)
        n_a2a = sum(1 for rec in w.log if rec[3] == 'coll' and rec[6] in ('Alltoall', 'Alltoallv'))
        shape, nprocs = case['shape'], case['nprocs']
        probes = {}
        if nprocs[0] == 1 and len(nprocs) > 1:
            probes['leading_extent_1'] = 1
        for _, o in case['layouts']:
            for j, p in enumerate(nprocs):
                if p > 1 and shape[o[j]] % p:
                    probes['padded_block'] = 1
                if p > 1 and shape[o[j]] == p:
                    probes['extent_eq_procs'] = 1
        if n_a2a == 0 and P > 1:
            probes['local_only'] = 1
        if case.get('reuse'):
            probes['arrays_reused_across_transposes'] = 1
        if case.get('underfull'):
            probes['extent_below_process_count'] = 1
        return dict(nontrivial=(P > 1 and n_a2a > 0), probes=probes)

    res = execute(ID, P, case['sched'], tape, rank_fn, post)
    if case.get('underfull') and res['status'] == 'violation' and str(res['kind']).startswith('exception:'):
        # an extent below the process count is beyond the extreme the property names (extent == process count):
        # code that refuses such a shape by raising is within its rights; only silently wrong data is judged
        res.update(status='skip', kind='skip', nontrivial=False,
                   message='extent below the process count refused: ' + str(res.get('message'))[:200])
        res['probes'] = dict(res.get('probes') or {}, extent_below_process_count_refused=1)
    return res


def shrink(case):
    # single operations
    if len(case['ops']) > 1:
        for op in case['ops']:
            c = dict(case)
            c['ops'] = [op]
            yield c
    # drop unused layouts
    used = {x for op in case['ops'] for x in op[:2]}
    if len(used) < len(case['layouts']):
        c = dict(case)
        c['layouts'] = [l for l in case['layouts'] if l[0] in used]
        yield c
    for l in case['layouts']:
        if l[0] not in used or len(case['layouts']) == 1:
            continue
    for i in range(len(case['layouts'])):
        if len(case['layouts']) > 2 and case['layouts'][i][0] not in used:
            c = dict(case)
            c['layouts'] = case['layouts'][:i] + case['layouts'][i + 1:]
            yield c
    # drop intermediate layouts even if used by routes
    for i in range(len(case['layouts'])):
        if case['layouts'][i][0] not in used and len(case['layouts']) > 1:
            c = dict(case)
            c['layouts'] = case['layouts'][:i] + case['layouts'][i + 1:]
            yield c
    if case['dtype'] != 'float64':
        c = dict(case)
        c['dtype'] = 'float64'
        yield c
    if case.get('extra'):
        c = dict(case)
        c['extra'] = 0
        yield c
    # fewer processes
    for j, p in enumerate(case['nprocs']):
        if p > 1:
            c = dict(case)
            c['nprocs'] = list(case['nprocs'])
            c['nprocs'][j] = p - 1
            c['P'] = int(np.prod(c['nprocs']))
            yield c
    # smaller extents
    need = [1] * len(case['shape'])
    for _, o in case['layouts']:
        for j, p in enumerate(case['nprocs']):
            need[o[j]] = max(need[o[j]], p)
    for d, n in enumerate(case['shape']):
        for m in sorted({need[d], n // 2, n - 1}):
            if need[d] <= m < n:
                c = dict(case)
                c['shape'] = list(case['shape'])
                c['shape'][d] = m
                yield c



def gen(rng, tier, idx):
    case = gen_base(rng, tier, idx, allow_underfull=True)
    cm.maybe_bystanders(rng, case['sched'], case['P'])
    return case
