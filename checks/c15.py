"""C15 - quasi-neutrality pipeline: exact FFT round trip, real potential,
equilibrium (DESIGN.md section 6, Appendix A)."""
import numpy as np

import simworld
from harness import Multi, OracleFail, Skip
from checks import common as cm
from checks import phys
from refs import reference as ref

ID = 'C15'
HASHSEED_EVERY = {'quick': 60, 'thorough': 300}     # one case in so many is also run under other string-hash seeds (harness._run_hashseed_invariant)
BUDGET = {'quick': 600, 'thorough': 50000}
WALL = {'quick': 150, 'thorough': 3000}
CHUNK = 6
REACH_N = 20
DET_K = 3
CASE_TIMEOUT = 600
SELFTEST = {'quick': 8, 'thorough': 96}
REQUIRED_PROBES = ['kind_pipeline', 'kind_equilibrium', 'chi_0', 'chi_1', 'kinetic_electrons', 'ntheta_even', 'ntheta_odd']
RULE = ("Every check: in 12% of the cases one or two bystander ranks share the simulated job and the code under test runs on world.Split(...); one case in HASHSEED_EVERY is re-run in fresh interpreters under other string-hash seeds and every rank's trace (collectives, data sent, result) must agree. "
        'Also: optional field factor B (40%), caller-supplied Te profile (25%), radial spline degree 2/4/5 (25%), density scaled by 1e-9 / 1e-12 / 1e6 (50%), a second solve on the same objects (40%), the same solver on grids over another process grid of the communicator (40%). '
        'case kinds: pipeline (85%) = random real (sometimes complex) density on (r,theta,z) with even or odd '
        'theta counts, chi in {0,1}, adiabatic or kinetic electrons, 1-3 process grids; the driver\'s sequence '
        'getModes -> setLayout(mode_solve) -> solveEquation -> setLayout(v_parallel_2d) -> findPotential with '
        'rho on a LayoutHandler and phi on the driver\'s LayoutSwapper.  Oracles: FFT round trip is the '
        'identity (1e-13); phi equals an independent dense Galerkin solve mode by mode in FFT order incl. '
        'negative frequencies (1e-9 max|phi|); Im phi = 0 for real density; same phi on every grid (1e-12). '
        'equilibrium (15%) = eps = 0 from any starting layout: density and potential vanish and one complete '
        'Strang step leaves f unchanged (1e-10).  non-trivial = some World with P > 1; distinct = distinct '
        'case tuples')
ASSUMPTIONS = ['the Gauss-Legendre rule (degree//2+1 points per cell) is part of the specification and shared with the reference',
               'B = 1 (the driver\'s default)']


def gen(rng, tier, idx):
    kind = 'equilibrium' if rng.random() < 0.15 else 'pipeline'
    if kind == 'pipeline':
        npts = [rng.randint(5, 10), rng.randint(4, 11), rng.randint(7, 8), 5]
    else:
        npts = [rng.randint(5, 7), rng.randint(5, 7), 7, rng.randint(6, 7)]
    ckw = phys.gen_constants(rng, amplified=True, npts=npts)
    if kind == 'pipeline' and rng.random() < 0.25:
        dr = rng.choice([2, 4, 5])         # radial spline degree other than the shipped cubic
        dq = rng.choice([2, 4, 5])         # (the 2-D poloidal spline of the pipeline wants r and theta of one kind)
        ckw['splineDegrees'] = [dr, dq, 3, 3]
        npts[0] = max(npts[0], dr + 3)
        npts[1] = max(npts[1], dq + 3)
        ckw['npts'] = [int(x) for x in npts]
    if kind == 'equilibrium':
        ckw['eps'] = 0.0
    ng = rng.choice([1, 2, 2, 3]) if kind == 'pipeline' else 1
    grids = phys.pick_grids(rng, npts, ng)
    if rng.random() < 0.25 or not grids:
        grids = [[1, 1]] + grids
    sched = simworld.random_sched(rng, 0)
    sched['poison'] = rng.random() < 0.7
    return dict(kind=kind, P=max(g[0] * g[1] for g in grids), ckw=ckw, grids=grids,
                chi=rng.choice([0, 1]), adiabatic=rng.random() < 0.75, rseed=rng.randrange(1 << 30),
                complex_rho=rng.random() < 0.15, B=rng.choice([None, None, 1.0, 0.6, 1.7]) if kind == 'pipeline' else None,
                Te_user=[rng.choice([0.5, 1.0, 2.5]), rng.choice([0.0, 0.4, -0.3]), rng.choice([3.0, 7.0])] if (kind == 'pipeline' and rng.random() < 0.25) else None, amp=rng.choice([1.0, 1.0, 1.0, 1e-9, 1e-12, 1e6]), twice=rng.random() < 0.4, regrid=rng.random() < 0.4, start=rng.choice(['flux_surface', 'v_parallel', 'poloidal']),
                other_solver_first=rng.random() < 0.3, sched=sched)


def density(case):
    rs = np.random.RandomState(case['rseed'] % (2 ** 31))
    n = case['ckw']['npts'][:3]
    R = rs.standard_normal(n)
    if case['complex_rho']:
        R = R + 1j * rs.standard_normal(n)
    # the equation is linear and homogeneous: the size of the density must not matter
    return R * float(case.get('amp') or 1.0)


def run_pipeline(case, tape):
    M = Multi(ID, tape)
    ckw = case['ckw']
    npts = ckw['npts']
    R = density(case)
    R2 = density(dict(case, rseed=case['rseed'] + 991)) * 3.0
    phis = []
    for g in case['grids']:
        P = g[0] * g[1]
        alt = None
        if case.get('regrid'):
            cand = [a for a in phys.admissible_grids(npts) if a[0] * a[1] == P and list(a) != list(g)]
            if cand:
                alt = cand[case['rseed'] % len(cand)]

        def rank_fn(comm, rank, alt=alt):
            f, constants = phys.setup_f(comm, ckw, 'v_parallel')
            phys.check_forced(f, g)
            if case.get('other_solver_first'):
                # another solver, for other physics, built earlier in the same process on the same radial grid
                # (round 11): nothing it leaves behind may reach the solver under test
                from pygyro.poisson.poisson_solver import QuasiNeutralitySolver
                okw = dict(B=2.3, Te=phys.user_Te([1.7, -0.2, 5.0]))
                if case['adiabatic']:
                    QuasiNeutralitySolver(f.eta_grid[:3], 7, f.getSpline(0), constants, adiabaticElectrons=False, **okw)
                else:
                    QuasiNeutralitySolver(f.eta_grid[:3], 7, f.getSpline(0), constants, chi=1 - case['chi'], **okw)
            pipe = phys.Pipeline(comm, f, constants, chi=case['chi'], adiabatic=case['adiabatic'], B=case.get('B'),
                                 opts=dict(Te_user=case.get('Te_user')))
            rho, phi, QN = pipe.rho, pipe.phi, pipe.QN
            rho.getAllData()[:] = cm.local(R, rho.getLayout('v_parallel_2d'))
            before = np.array(rho.getAllData(), copy=True)
            # (a) round trip on the same grid
            QN.getModes(rho)
            modes = phys.block(rho)
            QN.findPotential(rho)
            e = phys.relerr(rho.getAllData(), before)
            if not (e <= 1e-13):
                raise OracleFail('fft-roundtrip', dict(relerr=e, rank=rank))
            rho.getAllData()[:] = before
            # the driver's sequence
            QN.getModes(rho)
            rho.setLayout('mode_solve')
            phi.setLayout('mode_solve')
            cm.poison(phi.getAllData())
            QN.solveEquation(phi, rho)
            phi.setLayout('v_parallel_2d')
            rho.setLayout('v_parallel_2d')
            QN.findPotential(phi)
            out_phi = phys.block(phi)
            phi2 = None
            if case.get('twice'):
                # the same solver and grids used again with another density (as every time step does)
                rho.getAllData()[:] = cm.local(R2, rho.getLayout('v_parallel_2d'))
                QN.getModes(rho)
                rho.setLayout('mode_solve')
                phi.setLayout('mode_solve')
                QN.solveEquation(phi, rho)
                phi.setLayout('v_parallel_2d')
                rho.setLayout('v_parallel_2d')
                QN.findPotential(phi)
                phi2 = phys.block(phi)
            phi3 = None
            if alt is not None:
                # the same solver object on grids distributed over another process grid of the same communicator
                # (the solver holds no decomposition: its per-mode work must follow the grids it is handed)
                from pygyro.model.layout import getLayoutHandler
                from pygyro.model.grid import Grid
                lp = {'v_parallel_2d': [0, 2, 1], 'mode_solve': [1, 2, 0]}
                h_r = getLayoutHandler(comm, lp, list(alt), f.eta_grid[:3])
                h_p = getLayoutHandler(comm, lp, list(alt), f.eta_grid[:3])
                rho_b = Grid(f.eta_grid[:3], f.getSpline(slice(0, 3)), h_r, 'v_parallel_2d', comm, dtype=np.complex128)
                phi_b = Grid(f.eta_grid[:3], f.getSpline(slice(0, 3)), h_p, 'mode_solve', comm, dtype=np.complex128)
                rho_b.getAllData()[:] = cm.local(R2, rho_b.getLayout('v_parallel_2d'))
                QN.getModes(rho_b)
                rho_b.setLayout('mode_solve')
                cm.poison(phi_b.getAllData())
                QN.solveEquation(phi_b, rho_b)
                phi_b.setLayout('v_parallel_2d')
                QN.findPotential(phi_b)
                phi3 = phys.block(phi_b)
            return dict(phi=out_phi, phi2=phi2, phi3=phi3, modes=modes,
                        eta=[np.asarray(x) for x in f.eta_grid] if rank == 0 else None,
                        cdict=ref.constants_dict(constants) if rank == 0 else None)

        def post(w, results):
            eta, cdict = results[0]['eta'], results[0]['cdict']
            got = phys.assemble([r['phi'] for r in results], npts[:3], 'phi')
            modes = phys.assemble([r['modes'] for r in results], npts[:3], 'modes')
            # (the intermediate "modes" array is not constrained by the property - normalisation and
            # ordering are the implementation's choice - only the round trip and the potential are)
            if phys.relerr(modes, np.fft.fft(R.astype(complex), axis=1)) <= 1e-12:
                w.probe('modes_equal_unnormalised_fft')
            want = ref.qn_ref(R, eta, cdict, case['chi'], case['adiabatic'], Bfield=case.get('B') or 1.0,
                                           Te_fn=phys.user_Te(case['Te_user']) if case.get('Te_user') else None)
            e = phys.relerr(got, want)
            if not (e <= 1e-9):
                raise OracleFail('potential-differs', dict(grid=g, relerr=e, chi=case['chi'],
                                                           adiabatic=case['adiabatic'], ntheta=npts[1]))
            if not case['complex_rho']:
                im = float(np.max(np.abs(got.imag))) / float(np.max(np.abs(got)))
                if not (im <= 1e-12):
                    raise OracleFail('potential-not-real', dict(grid=g, imag_rel=im))
            if case.get('twice'):
                got2 = phys.assemble([r['phi2'] for r in results], npts[:3], 'phi (second solve)')
                e2 = phys.relerr(got2, ref.qn_ref(R2, eta, cdict, case['chi'], case['adiabatic'], Bfield=case.get('B') or 1.0,
                                           Te_fn=phys.user_Te(case['Te_user']) if case.get('Te_user') else None))
                if not (e2 <= 1e-9):
                    raise OracleFail('potential-differs', dict(grid=g, relerr=e2, why='second solve on the same solver and grids'))
            pr = {'grid_%dx%d' % (g[0], g[1]): 1}
            if results[0].get('phi3') is not None:
                got3 = phys.assemble([r['phi3'] for r in results], npts[:3], 'phi (other process grid, same solver)')
                e3 = phys.relerr(got3, ref.qn_ref(R2, eta, cdict, case['chi'], case['adiabatic'], Bfield=case.get('B') or 1.0,
                                           Te_fn=phys.user_Te(case['Te_user']) if case.get('Te_user') else None))
                if not (e3 <= 1e-9):
                    raise OracleFail('potential-differs', dict(grid=g, relerr=e3,
                                                               why='same solver used on grids over another process grid'))
                pr['solver_reused_on_other_process_grid'] = 1
            phis.append(got)
            return dict(probes=pr)
        with phys.force_procs({P: g}):
            res = M.run(P, case['sched'], rank_fn, post)
        if res['status'] != 'ok':
            break

    def oracle():
        for i in range(1, len(phis)):
            e = phys.relerr(phis[i], phis[0])
            if not (e <= 1e-12):
                raise OracleFail('decomposition-dependent', dict(grids=[case['grids'][0], case['grids'][i]], relerr=e))
        probes = {'kind_pipeline': 1, 'chi_%d' % case['chi']: 1,
                  'adiabatic' if case['adiabatic'] else 'kinetic_electrons': 1,
                  'ntheta_even' if npts[1] % 2 == 0 else 'ntheta_odd': 1}
        if case.get('twice'):
            probes['solver_reused'] = 1
        if case.get('other_solver_first'):
            probes['other_solver_built_first'] = 1
        if case.get('B') not in (None, 1.0):
            probes['B_not_one'] = 1
        if (ckw.get('splineDegrees') or [3])[0] != 3:
            probes['radial_degree_not_3'] = 1
        if case.get('Te_user') and case['adiabatic']:
            probes['electron_temperature_given_by_caller'] = 1
        return dict(nontrivial=case['P'] > 1, probes=probes)
    return M.finish(oracle=oracle)


def run_equilibrium(case, tape):
    M = Multi(ID, tape)
    ckw = case['ckw']
    npts = ckw['npts']
    for g in case['grids']:
        P = g[0] * g[1]

        def rank_fn(comm, rank):
            f, constants = phys.setup_f(comm, ckw, case['start'], allocateSaveMemory=True)
            pipe = phys.Pipeline(comm, f, constants, chi=case['chi'])
            f0 = phys.block(f)
            fmax = float(np.max(np.abs(f.getAllData())))
            pipe.solve_qn()
            rho0 = phys.block(pipe.rho)
            phi0 = phys.block(pipe.phi)
            pipe.strang_step()
            f.setLayout(case['start'])
            return dict(f0=f0, f1=phys.block(f), rho=rho0, phi=phi0,
                        width=float(f.eta_grid[3][-1] - f.eta_grid[3][0]))

        def post(w, results):
            F0 = phys.assemble([r['f0'] for r in results], npts, 'f0')
            F1 = phys.assemble([r['f1'] for r in results], npts, 'f1')
            rho = phys.assemble([r['rho'] for r in results], npts[:3], 'rho')
            phi = phys.assemble([r['phi'] for r in results], npts[:3], 'phi')
            scale = float(np.max(np.abs(F0))) * results[0]['width']
            if float(np.max(np.abs(rho))) > 1e-10 * scale or float(np.max(np.abs(phi))) > 1e-10 * scale:
                raise OracleFail('equilibrium-not-neutral', dict(grid=g, rho=float(np.max(np.abs(rho))),
                                                                 phi=float(np.max(np.abs(phi))), scale=scale))
            e = phys.relerr(F1, F0)
            if not (e <= 1e-10):
                raise OracleFail('equilibrium-not-fixed-point', dict(grid=g, relerr=e, iota=ckw.get('iotaVal')))
            return None
        with phys.force_procs({P: g}):
            res = M.run(P, case['sched'], rank_fn, post)
        if res['status'] != 'ok':
            break
    return M.finish(extra=dict(nontrivial=case['P'] > 1, probes={'kind_equilibrium': 1,
                                                                 'start_' + case['start']: 1}))


def run(case, tape=None):
    if case['kind'] == 'pipeline':
        return run_pipeline(case, tape)
    return run_equilibrium(case, tape)


def shrink(case):
    if len(case['grids']) > 1:
        for g in case['grids']:
            yield dict(case, grids=[g], P=g[0] * g[1])
    if case.get('complex_rho'):
        yield dict(case, complex_rho=False)
    for d in range(3):
        lo = max([5, 4, 7][d], (case['ckw'].get('splineDegrees') or [3, 3, 3, 3])[d] + 3)
        if case['ckw']['npts'][d] > lo:
            n2 = list(case['ckw']['npts'])
            n2[d] -= 1
            if all(g in phys.admissible_grids(n2) for g in case['grids']):
                c = dict(case)
                c['ckw'] = dict(case['ckw'], npts=n2)
                yield c


_gen_plain = gen


def gen(rng, tier, idx):
    case = _gen_plain(rng, tier, idx)
    if True:
        cm.maybe_bystanders(rng, case['sched'], case['P'])
    return case
