"""C17 - diagnostics and global reductions equal serial quadrature of the global
field (DESIGN.md section 6)."""
import os
import sys

import numpy as np

import simworld
import seams
from harness import Multi, OracleFail, Skip, Scratch
from checks import common as cm
from checks import phys, c03, c18
from refs import reference as ref

ID = 'C17'
HASHSEED_EVERY = {'quick': 50, 'thorough': 300}     # one case in so many is also run under other string-hash seeds (harness._run_hashseed_invariant)
BUDGET = {'quick': 1000, 'thorough': 80000}
WALL = {'quick': 150, 'thorough': 3000}
CHUNK = 8
REACH_N = 40
DET_K = 4
CASE_TIMEOUT = 900
SELFTEST = {'quick': 12, 'thorough': 128}
EPS = 2.220446049250313e-16
REQUIRED_PROBES = ['kind_norms', 'kind_collector', 'kind_plot', 'kind_driver', 'replicated_layout', 'nonuniform_r_v', 'slots_wrapped', 'rows_across_restart', 'driver_rows_checked']
RULE = ("Every check: in 12% of the cases one or two bystander ranks share the simulated job and the code under test runs on world.Split(...); one case in HASHSEED_EVERY is re-run in fresh interpreters under other string-hash seeds and every rank's trace (collectives, data sent, result) must agree. "
        'Also: a second grid with the same sizes and end points in the same case (30% of norms), collector times that are not multiples of dt (30%), integer coordinate arrays (8%), fields of 0.1-0.8 million points (3%). '
        'case kinds (swarm-weighted): norms = random sign-changing (or constant one) 4-D field and complex '
        '3-D field on seeded non-uniform r and v grids, every process grid, the norm/energy classes in each '
        'of the three 4-D layouts and in the 2-D-distributed and the replicated 3-D layouts of the driver\'s '
        'swapper; per-rank values summed over one replica set are compared with serial trapezoid/rectangle '
        'quadrature of the global field (tolerance 256 eps sum|terms|); min/max with and without drawing rank. '
        'collector = DiagnosticCollector.collect for a sequence of times then reduce (seeded reduction order, '
        'eager completion), every slot compared with the reference of the field collected at that time. '
        'plot = setupCylindricalGrid with a plot-only rank, min/max to the drawing rank. driver = '
        'fullSimulation.main() with save interval 1 (every row checked against the checkpoint of its own '
        'time) versus the same run with interval s in one or two legs (rows must agree time by time). '
        'non-trivial = some World with P > 1; distinct = distinct case tuples')
ASSUMPTIONS = ['theta and z grids uniform and periodic (asserted by the classes); integer dt']


def gen(rng, tier, idx):
    r = rng.random()
    if r < 0.45:
        return gen_norms(rng)
    if r < 0.75:
        return gen_collector(rng)
    if r < 0.85:
        return gen_plot(rng)
    return gen_driver(rng)


def _eta(case):
    rs = np.random.RandomState(case['eseed'] % (2 ** 31))
    nr, nq, nz, nv = case['npts']
    if case['uniform']:
        r = np.linspace(0.1, 14.5, nr)
        v = np.linspace(-7.32, 7.32, nv)
    else:
        r = np.sort(0.1 + 14.4 * rs.rand(nr))
        r[0], r[-1] = 0.1, 14.5
        v = np.sort(-7.32 + 14.64 * rs.rand(nv))
        v[0], v[-1] = -7.32, 7.32
    if case.get('int_coords'):
        # coordinates stored as integers (Layout, Grid and the diagnostics take any numeric array)
        r = np.arange(2, 2 + nr, dtype=np.int64) * (2 if case['eseed'] % 2 else 1)
        v = np.arange(-(nv // 2), nv - nv // 2, dtype=np.int64)
    q = np.linspace(0, 2 * np.pi, nq, endpoint=False)
    z = np.linspace(0, 31.0, nz, endpoint=False)
    return [r, q, z, v]


def _fields(case, k=0):
    rs = np.random.RandomState((case['fseed'] + 7919 * k) % (2 ** 31))
    npts = case['npts']
    if case.get('one'):
        F = np.ones(npts)
    else:
        F = rs.standard_normal(npts) * (1.0 + 5.0 * rs.rand(*npts))
        # fields of one sign (round 11): the neutral elements of the min / max reductions must lie beyond any data,
        # whatever its sign or size
        sign = case.get('sign', 'mixed')
        if sign == 'negative':
            F = -np.abs(F) - 0.5
        elif sign == 'positive':
            F = np.abs(F) + 0.5
    PHI = rs.standard_normal(npts[:3]) + 1j * rs.standard_normal(npts[:3])
    return F, PHI


def gen_norms(rng):
    npts = [rng.randint(3, 8), rng.randint(3, 8), rng.randint(3, 8), rng.randint(3, 8)]
    big = rng.random() < 0.03
    if big:
        # a large field (local blocks of more than 2**16 points): nothing may depend on the size of a block
        npts = [rng.randint(18, 44), 16, rng.choice([16, 24, 32]), rng.randint(17, 34)]
    grids = [g for g in ([p1, p2] for p1 in range(1, 5) for p2 in range(1, 5))
             if g[0] * g[1] <= 12 and g[0] <= min(npts[0], npts[3], npts[1]) and g[1] <= min(npts[2], npts[3])]
    g = rng.choice(grids)
    sched = simworld.random_sched(rng, 0)
    sched['poison'] = rng.random() < 0.5
    return dict(kind='norms', P=g[0] * g[1], npts=npts, grid=g, uniform=rng.random() < 0.2,
                eseed=rng.randrange(1 << 30), fseed=rng.randrange(1 << 30), one=rng.random() < 0.15,
                root=rng.randrange(g[0] * g[1]), fix_axis=rng.randrange(4), second_grid=rng.random() < 0.3, int_coords=rng.random() < 0.08, sched=sched,
                sign=rng.choice(['mixed', 'mixed', 'negative', 'negative', 'positive']))


def gen_collector(rng):
    c = gen_norms(rng)
    c['kind'] = 'collector'
    c['one'] = False
    c['save_step'] = rng.randint(1, 5)
    c['dt'] = rng.choice([1, 2, 3])
    c['t0'] = rng.choice([0, 0, 1, 3, 10]) * c['dt']
    if rng.random() < 0.3 and c['dt'] > 1:
        # a run continued with another time step: the times are no longer multiples of dt (the step a time
        # belongs to is t // dt, as in the driver's bookkeeping)
        c['t0'] += rng.randint(1, c['dt'] - 1)
    c['ncollect'] = rng.randint(1, 8)
    c['sched']['reduce_reorder'] = rng.random() < 0.7
    return c


def gen_plot(rng):
    npts = [rng.randint(5, 7), rng.randint(5, 7), rng.randint(7, 8), rng.randint(5, 7)]
    P = rng.choice([1, 2, 3, 4, 6])
    ckw = phys.gen_constants(rng, amplified=True, npts=npts)
    sched = simworld.random_sched(rng, 0)
    return dict(kind='plot', P=P + 1, nlayout=P, ckw=ckw, draw=rng.randrange(P + 1),
                layout=rng.choice(['flux_surface', 'v_parallel', 'poloidal']),
                walk=[rng.choice(['flux_surface', 'v_parallel', 'poloidal']) for _ in range(rng.randint(0, 2))],
                fix_axis=rng.randrange(4), fix_val=rng.randrange(5), sched=sched)


def gen_driver(rng):
    c = c18.gen_driver(rng, 'quick')
    c['kind'] = 'driver'
    c['stop'] = rng.choice(['none', 'tEnd', 'tEnd'])
    c['sched']['reduce_reorder'] = rng.random() < 0.5
    if c['N'] + c['M'] > 5:
        c['M'] = max(0, 5 - c['N'])
    return c


# ---------------------------------------------------------------------------
def _tol(mag):
    return 256 * EPS * mag + 1e-300


def _replica_sum(results, key, name):
    """sum of a per-rank value over one replica set (ranks with distinct blocks)"""
    seen = {}
    for r, res in enumerate(results):
        blk = res[key]['block']
        k = (tuple(blk[1]), tuple(blk[2]))
        v = res[key][name]
        if k in seen:
            if seen[k] != v:
                raise OracleFail('replicas-differ', dict(what=key, name=name, a=seen[k], b=v))
        else:
            seen[k] = v
    return float(np.sum(list(seen.values()))), len(results) // max(1, len(seen))


def run_norms(case, tape):
    M = Multi(ID, tape)
    _norms_world(M, case)
    probes = {'kind_norms': 1}
    if case.get('second_grid') and not M.failed():
        # a second grid in the same process with the same sizes and end points but other interior points
        # (another mesh grading, another spline degree): nothing computed for the first may be reused for it
        _norms_world(M, dict(case, eseed=case['eseed'] + 101, fseed=case['fseed'] + 101, uniform=not case['uniform']))
        probes['second_grid_same_ends'] = 1
    return M.finish(extra=dict(nontrivial=case['P'] > 1, probes=probes))


def _norms_world(M, case):
    P = case['P']
    g = case['grid']
    npts = case['npts']
    eta = _eta(case)
    F, PHI = _fields(case)

    def rank_fn(comm, rank):
        from pygyro.model.layout import getLayoutHandler, LayoutSwapper
        from pygyro.model.grid import Grid
        from pygyro.diagnostics.norms import l2, l1, nParticles
        from pygyro.diagnostics.energy import KineticEnergy
        h = getLayoutHandler(comm, dict(phys.STD_LAYOUTS), list(g), eta)
        f = Grid(eta, [], h, 'v_parallel', comm)
        f.getAllData()[:] = cm.local(F, h.getLayout('v_parallel'))
        out = {}
        for lay in ('v_parallel', 'flux_surface', 'poloidal'):
            f.setLayout(lay)
            L = f.getLayout(lay)
            out[lay] = dict(block=phys.block(f)[:3] + (None,),
                            l2=float(l2(eta, L).l2NormSquared(f)), l1=float(l1(eta, L).l1Norm(f)),
                            n=float(nParticles(eta, L).getN(f)), ke=float(KineticEnergy(eta, L).getKE(f)),
                            lmin=float(f.getMin()), lmax=float(f.getMax()))
            out[lay + '_red'] = (f.getMin(case['root']), f.getMax(case['root']),
                                 f.getMin(case['root'], case['fix_axis'], npts[case['fix_axis']] // 2),
                                 f.getMax(case['root'], [0, 3], [npts[0] - 1, 0]))
        groups, pattern = c03.DRIVER[0]
        sw = LayoutSwapper(comm, [dict(x) for x in groups], c03._expand(pattern, g), eta[:3], 'v_parallel_2d')
        phi = Grid(eta[:3], [], sw, 'v_parallel_2d', comm, dtype=np.complex128)
        phi.getAllData()[:] = cm.local(PHI, sw.getLayout('v_parallel_2d'))
        for lay in ('v_parallel_2d', 'mode_solve', 'v_parallel_1d', 'poloidal'):
            phi.setLayout(lay)
            out['phi_' + lay] = dict(block=phys.block(phi)[:3] + (None,),
                                     l2=float(l2(eta[:3], phi.getLayout(lay)).l2NormSquared(phi)))
        return out

    def post(w, results):
        want, mag = ref.diagnostics_ref(F, eta)
        for lay in ('v_parallel', 'flux_surface', 'poloidal'):
            for name in ('l2', 'l1', 'n', 'ke'):
                tot, rep = _replica_sum(results, lay, name)
                if abs(tot - want[name]) > _tol(mag[name]):
                    raise OracleFail('diagnostic-differs', dict(layout=lay, name=name, got=tot, want=want[name],
                                                                rel=abs(tot - want[name]) / max(mag[name], 1e-300)))
            if min(r[lay]['lmin'] for r in results) != F.min() or max(r[lay]['lmax'] for r in results) != F.max():
                raise OracleFail('minmax-differs', dict(layout=lay, why='local min/max'))
            fa = case['fix_axis']
            idx = [slice(None)] * 4
            idx[fa] = npts[fa] // 2
            wants = (F.min(), F.max(), F[tuple(idx)].min(), F[npts[0] - 1, :, :, 0].max())
            for r, res in enumerate(results):
                got = res[lay + '_red']
                if r == case['root']:
                    if tuple(float(x) for x in got) != tuple(float(x) for x in wants):
                        raise OracleFail('minmax-differs', dict(layout=lay, got=[float(x) for x in got],
                                                                want=[float(x) for x in wants]))
        wantp = ref.l2_phi_ref(PHI, eta)
        probes = {}
        for lay in ('v_parallel_2d', 'mode_solve', 'v_parallel_1d', 'poloidal'):
            tot, rep = _replica_sum(results, 'phi_' + lay, 'l2')
            if abs(tot - wantp) > _tol(wantp):
                raise OracleFail('diagnostic-differs', dict(layout='phi ' + lay, name='l2', got=tot, want=wantp,
                                                            rel=abs(tot - wantp) / wantp))
            if rep > 1:
                probes['replicated_layout'] = 1
        if case.get('one'):
            r_, q_, z_, v_ = eta
            vol = 0.5 * (r_[-1] ** 2 - r_[0] ** 2) * 2 * np.pi * (z_[1] - z_[0]) * len(z_) * (v_[-1] - v_[0])
            tot, _ = _replica_sum(results, 'v_parallel', 'n')
            if abs(tot - vol) > 1e-12 * vol:
                raise OracleFail('volume-factor', dict(got=tot, want=vol))
            probes['field_one'] = 1
        if case.get('sign', 'mixed') != 'mixed' and not case.get('one'):
            probes['field_' + case['sign'] + '_everywhere'] = 1
        if not case['uniform']:
            probes['nonuniform_r_v'] = 1
        if case['root'] != 0:
            probes['drawing_rank_nonzero'] = 1
        return dict(probes=probes)
    return M.run(P, case['sched'], rank_fn, post)


# ---------------------------------------------------------------------------
def run_collector(case, tape):
    M = Multi(ID, tape)
    P = case['P']
    g = case['grid']
    npts = case['npts']
    eta = _eta(case)
    s, dt = case['save_step'], case['dt']
    times = [case['t0'] + k * dt for k in range(case['ncollect'])]

    def rank_fn(comm, rank):
        from pygyro.model.layout import getLayoutHandler
        from pygyro.model.grid import Grid
        from pygyro.diagnostics.diagnostic_collector import DiagnosticCollector
        h = getLayoutHandler(comm, dict(phys.STD_LAYOUTS), list(g), eta)
        f = Grid(eta, [], h, 'v_parallel', comm)
        hp = getLayoutHandler(comm, {'v_parallel_2d': [0, 2, 1], 'mode_solve': [1, 2, 0]}, list(g), eta[:3])
        phi = Grid(eta[:3], [], hp, 'v_parallel_2d', comm, dtype=np.complex128)
        dc = DiagnosticCollector(comm, s, dt, f, phi)
        for k, t in enumerate(times):
            F, PHI = _fields(case, k)
            f.getAllData()[:] = cm.local(F, h.getLayout('v_parallel'))
            phi.getAllData()[:] = cm.local(PHI, hp.getLayout('v_parallel_2d'))
            dc.collect(f, phi, t)
        dc.reduce()
        if rank == 0:
            return [dc.getLine(i) for i in range(s)]
        return None

    def post(w, results):
        lines = results[0]
        last = {}
        for k, t in enumerate(times):
            last[(t // dt) % s] = k
        for slot in range(s):
            vals = [float(x) for x in lines[slot].split()]
            if slot not in last:
                continue
            k = last[slot]
            F, PHI = _fields(case, k)
            want, mag = ref.diagnostics_ref(F, eta)
            wl2p = ref.l2_phi_ref(PHI, eta)
            exp = [times[k], np.sqrt(wl2p), np.sqrt(want['l2']), want['l1'], want['n'], F.min(), F.max(), want['ke']]
            mags = [abs(times[k]) + 1, np.sqrt(wl2p), np.sqrt(want['l2']), mag['l1'], mag['n'],
                    abs(F.min()), abs(F.max()), mag['ke']]
            for j, (a, b, m_) in enumerate(zip(vals, exp, mags)):
                if abs(a - b) > 1e-7 * max(m_, abs(b)):          # far above any print precision, far below any wiring error
                    raise OracleFail('collector-slot', dict(slot=slot, column=j, got=a, want=b,
                                                            time=times[k], save_step=s, dt=dt))
        probes = {'kind_collector': 1}
        if len(times) > s:
            probes['slots_wrapped'] = 1
        if case['t0']:
            probes['nonzero_start_time'] = 1
        if case['t0'] % dt:
            probes['times_not_multiples_of_dt'] = 1
        return dict(probes=probes)
    M.run(P, case['sched'], rank_fn, post)
    return M.finish(extra=dict(nontrivial=P > 1))


# ---------------------------------------------------------------------------
def run_plot(case, tape):
    M = Multi(ID, tape)
    P = case['P']
    ckw = case['ckw']
    npts = ckw['npts']
    fa = case['fix_axis']
    fv = min(case['fix_val'], npts[fa] - 1)

    def rank_fn(comm, rank):
        f, constants = phys.setup_f(comm, ckw, case['layout'], plotThread=True, drawRank=case['draw'],
                                    allocateSaveMemory=True)
        for lay in case['walk']:
            f.setLayout(lay)
        blk = phys.block(f) if rank != case['draw'] else None
        red = (f.getMin(case['draw']), f.getMax(case['draw']), f.getMin(case['draw'], fa, fv),
               f.getMax(case['draw'], fa, fv))
        return dict(block=blk, red=red, size=int(f.getAllData().size))

    def post(w, results):
        if results[case['draw']]['size'] != 0:
            raise OracleFail('plot-rank-not-empty', dict(size=results[case['draw']]['size']))
        F = phys.assemble([r['block'] for r in results if r['block'] is not None], npts, 'f')
        idx = [slice(None)] * 4
        idx[fa] = fv
        want = (F.min(), F.max(), F[tuple(idx)].min(), F[tuple(idx)].max())
        got = results[case['draw']]['red']
        if tuple(float(x) for x in got) != tuple(float(x) for x in want):
            raise OracleFail('minmax-differs', dict(got=[float(x) for x in got], want=[float(x) for x in want],
                                                    draw=case['draw']))
        return dict(probes={'kind_plot': 1, 'plot_only_rank': 1})
    M.run(P, case['sched'], rank_fn, post)
    return M.finish(extra=dict(nontrivial=True))


# ---------------------------------------------------------------------------
def _rows(path):
    rows = []
    if not seams._real['exists'](path):
        return rows
    with seams.real_open(path) as fh:
        for ln in fh:
            p = ln.split()
            if len(p) == 8:
                rows.append([float(x) for x in p])
    return rows


def run_driver(case, tape):
    M = Multi(ID, tape)
    ckw = case['ckw']
    dt = ckw['dt']
    N, Mm, s = case['N'], case['M'], case['save']
    P1 = case['g1'][0] * case['g1'][1]
    P2 = case['g2'][0] * case['g2'][1]
    tEnd = (N + Mm) * dt
    big = 10 ** 30
    info = {}
    quiet = dict(case['sched'], abort_at=None)
    with Scratch() as base:
        cfile = os.path.join(base, 'constants.json')
        c18._write_constants(cfile, ckw)
        A = os.path.join(base, 'every')
        B = os.path.join(base, 'interval')
        r = c18._driver_world(M, P1, case['g1'], quiet, base, [tEnd, big, '-c', cfile, '-f', A, '-s', 1])
        if r['status'] == 'ok':
            if case['stop'] == 'tEnd':
                r1 = c18._driver_world(M, P1, case['g1'], quiet, base, [N * dt, big, '-c', cfile, '-f', B, '-s', s])
                if r1['status'] == 'ok':
                    c18._driver_world(M, P2, case['g2'], quiet, base, [tEnd, big, '-c', cfile, '-f', B, '-s', s])
            else:
                c18._driver_world(M, P2, case['g2'], quiet, base, [tEnd, big, '-c', cfile, '-f', B, '-s', s])
            info['rowsA'] = _rows(os.path.join(A, 'phiDat.txt'))
            info['rowsB'] = _rows(os.path.join(B, 'phiDat.txt'))
            info['ck'] = {}
            for k in range(N + Mm + 1):
                info['ck'][k * dt] = (c18._read_ckpt(A, 'grid', k * dt), c18._read_ckpt(A, 'phi', k * dt))
            info['eta'] = None

        if 'rowsA' not in info or M.failed() is not None:
            return M.finish()
        # eta grids: read back through a one-rank set-up of the same constants
        holder = {}

        def eta_fn(comm, rank):
            f, constants = phys.setup_f(comm, ckw, 'v_parallel')
            holder['eta'] = [np.asarray(e) for e in f.eta_grid]
            return True
        M.run(1, simworld.default_sched(0), eta_fn)
        eta = holder.get('eta')

    def oracle2():
        rowsA, rowsB = info['rowsA'], info['rowsB']
        byA = {}
        for row in rowsA:
            byA.setdefault(row[0], []).append(row)
        times = [k * dt for k in range(N + Mm + 1)]
        checked = 0
        for t in times:
            if t not in byA:
                # with save interval 1 every step is a save step: its diagnostics are collected into the slot of that
                # step and written at once, so the row of every time must be there (for other intervals, which rows
                # the driver flushes at the end is left open: only rows that exist are judged)
                if rowsA:
                    raise OracleFail('diagnostic-row-missing', dict(run='interval 1', t=t, have=sorted(byA)))
                continue
            g_, p_ = info['ck'][t]
            if g_ is None or p_ is None:
                raise OracleFail('checkpoint-missing', dict(t=t))
            F = g_[0].transpose(np.argsort(g_[1]))
            PHI = p_[0].transpose(np.argsort(p_[1]))
            want, mag = ref.diagnostics_ref(F, eta)
            wl2p = ref.l2_phi_ref(PHI, eta)
            exp = [t, np.sqrt(wl2p), np.sqrt(want['l2']), want['l1'], want['n'], F.min(), F.max(), want['ke']]
            for row in byA[t]:
                checked += 1
                for j, (a, b) in enumerate(zip(row, exp)):
                    if abs(a - b) > 1e-7 * max(abs(b), 1e-300) + 1e-300:
                        raise OracleFail('diagnostic-row-wrong', dict(run='interval 1', t=t, column=j, got=a, want=b))
        byB = {}
        for row in rowsB:
            byB.setdefault(row[0], []).append(row)
        for t, rws in byB.items():
            if t not in byA:
                raise OracleFail('diagnostic-row-wrong', dict(run='interval %d' % s, t=t, why='row for a time that was never computed'))
            for row in rws:
                checked += 1
                for j, (a, b) in enumerate(zip(row, byA[t][0])):
                    if abs(a - b) > 1e-7 * max(abs(b), 1e-300) + 1e-300:
                        raise OracleFail('diagnostic-row-wrong', dict(run='interval %d' % s, t=t, column=j, got=a,
                                                                      want=b, N=N, M=Mm, stop=case['stop']))
        probes = {'kind_driver': 1, 'save_interval_%d' % s: 1, 'driver_rows_checked': checked}
        if any(t not in byB for t in times) or any(t not in byA for t in times):
            probes['driver_times_without_row'] = 1
        if any(len(v) > 1 for v in byB.values()) or any(len(v) > 1 for v in byA.values()):
            probes['driver_duplicate_rows'] = 1
        if case['stop'] == 'tEnd':
            probes['rows_across_restart'] = 1
        return dict(nontrivial=max(P1, P2) > 1, probes=probes)
    return M.finish(oracle=oracle2)


def run(case, tape=None):
    k = case['kind']
    if k == 'norms':
        return run_norms(case, tape)
    if k == 'collector':
        return run_collector(case, tape)
    if k == 'plot':
        return run_plot(case, tape)
    return run_driver(case, tape)


def shrink(case):
    k = case['kind']
    if k in ('norms', 'collector'):
        if case['grid'] != [1, 1]:
            for g in ([1, 1], [case['grid'][0], 1], [1, case['grid'][1]]):
                if g != case['grid']:
                    yield dict(case, grid=g, P=g[0] * g[1], root=0)
        if not case['uniform']:
            yield dict(case, uniform=True)
        if k == 'collector' and case['ncollect'] > 1:
            yield dict(case, ncollect=case['ncollect'] - 1)
    elif k == 'driver':
        for c in c18.shrink(dict(case, kind='driver')):
            if c.get('stop') in ('none', 'tEnd'):
                yield c
        if case['stop'] == 'tEnd':
            yield dict(case, stop='none')


_gen_plain = gen


def gen(rng, tier, idx):
    case = _gen_plain(rng, tier, idx)
    if case['kind'] in ('norms', 'collector', 'plot'):
        cm.maybe_bystanders(rng, case['sched'], case['P'])
    return case
