"""C04 - Grid layout changes and save/restore behave like one global array
(DESIGN.md section 6)."""
import itertools

import numpy as np

import simworld
from harness import execute, OracleFail, Skip
from checks import common as cm
from checks import c01, c03

ID = 'C04'
HASHSEED_EVERY = {'quick': 1000, 'thorough': 5000}     # one case in so many is also run under other string-hash seeds (harness._run_hashseed_invariant)
BUDGET = {'quick': 20000, 'thorough': 1000000}
WALL = {'quick': 100, 'thorough': 1500}
CHUNK = 50
STD4 = [['flux_surface', [0, 3, 1, 2]], ['v_parallel', [0, 2, 1, 3]], ['poloidal', [3, 2, 1, 0]]]
REQUIRED_PROBES = ['restore_after_2plus_layout_changes', 'illegal_op_refused', 'mgr_handler', 'mgr_swapper', 'no_save_memory']
RULE = ("Every check: in 12% of the cases one or two bystander ranks share the simulated job and the code under test runs on world.Split(...); one case in HASHSEED_EVERY is re-run in fresh interpreters under other string-hash seeds and every rank's trace (collectives, data sent, result) must agree. "
        "Also: Grids on swappers with random groupings (12%), a second Grid on the same manager that must not be disturbed (25%), the caller's coordinate arrays must stay untouched, default communicator argument (30%), fresh str objects for the names. "
        'cases 0..398 (quick; thorough also 399..1196 on two more configurations) = every operation '
        'sequence of length 1-3 over {setLayout x3, overwrite, save, restore, free} on a fixed small '
        'configuration; remaining cases = seeded histories of length 1-25 (biased to save / k layout '
        'changes / overwrite / restore) on random configurations: Grid on a LayoutHandler (4-D standard '
        'layouts or random orderings) or on a LayoutSwapper (3-D driver grouping), with or without save '
        'memory, float64 or complex128, np.empty poisoned.  After every operation on every rank the grid '
        'is compared with the model (G, layout, saved).  non-trivial = P > 1 and history contains a '
        'layout change; distinct = distinct (configuration, history) tuples')
ASSUMPTIONS = ['illegal operations are refused by raising (the code uses assert: interpreter not run with -O)']


def _alphabet(names):
    return [['set', n] for n in names[:3]] + [['overwrite'], ['save'], ['restore'], ['free']]


FIXED = [
    dict(mgr='handler', nprocs=[2, 2], shape=[4, 5, 4, 5], layouts=STD4, save=True, dtype='float64', start='v_parallel'),
    dict(mgr='swapper', grid=[2, 2], shape=[4, 5, 6], groups=c03.DRIVER[0][0], pattern=c03.DRIVER[0][1],
         save=True, dtype='complex128', start='mode_solve'),
    dict(mgr='handler', nprocs=[1, 3], shape=[3, 4, 5, 4], layouts=STD4, save=False, dtype='float64', start='poloidal'),
]


def _names(cfg):
    if cfg['mgr'] == 'handler':
        return [n for n, _ in cfg['layouts']]
    return [n for g in cfg['groups'] for n in (g if isinstance(g, dict) else dict(g))]


def _cfg_case(cfg):
    c = dict(cfg)
    if c['mgr'] == 'swapper':
        c['groups'] = [[[n, list(o)] for n, o in (g.items() if isinstance(g, dict) else g)] for g in c['groups']]
        c['nprocs'] = c03._expand(c['pattern'], c['grid'])
        c['P'] = c['grid'][0] * c['grid'][1]
        c['family'] = 'driver'
    else:
        c['P'] = int(np.prod(c['nprocs']))
    return c


def _systematic(k):
    """k-th sequence of length 1..3 over a 7-letter alphabet."""
    for L in (1, 2, 3):
        n = 7 ** L
        if k < n:
            digits = []
            for _ in range(L):
                digits.append(k % 7)
                k //= 7
            return digits[::-1]
        k -= n
    return None


NSYS = 7 + 49 + 343


def gen(rng, tier, idx):
    nfixed = 1 if tier == 'quick' else 3
    if idx < NSYS * nfixed:
        cfg = _cfg_case(FIXED[idx // NSYS])
        alpha = _alphabet(_names(cfg))
        hist = [alpha[d] for d in _systematic(idx % NSYS)]
        cfg['history'] = hist
        cfg['systematic'] = True
        cfg['sched'] = simworld.default_sched(0, poison=True)
        return cfg
    r = rng.random()
    if r < 0.12:
        # a Grid on a swapper with random groupings (several handlers, routes of three and more steps)
        c3 = c03._gen_plain(rng, tier, idx)
        cfg = dict(mgr='swapper', grid=c3['grid'], shape=c3['shape'], groups=c3['groups'], nprocs=c3['nprocs'],
                   P=c3['P'], family=c3['family'], order_shuffled=c3.get('order_shuffled', False), random_groups=True)
        names = _names(cfg)
    elif r < 0.35:
        grid = rng.choice([[1, 1], [1, 2], [2, 1], [2, 2], [1, 3], [3, 1], [2, 3], [3, 2], [3, 3], [2, 4], [4, 2], [1, 4]])
        gi = rng.choice([0, 0, 1])
        groups, pattern = c03.DRIVER[gi]
        ndim = len(next(iter(groups[0].values())))
        shape = [max(grid) + rng.randint(0, 4) for _ in range(ndim)]
        cfg = dict(mgr='swapper', grid=grid, shape=shape, groups=groups, pattern=pattern)
        cfg = _cfg_case(cfg)
        names = _names(cfg)
    else:
        if rng.random() < 0.6:
            layouts = STD4
            ndim = 4
            nprocs = rng.choice([[1, 1], [1, 2], [2, 1], [2, 2], [1, 3], [3, 1], [2, 3], [3, 2], [3, 3], [4, 2], [2, 4], [1, 4], [4, 1], [4, 3]])
        else:
            ndim = rng.choice([2, 3, 4])
            nprocs = cm.gen_nprocs(rng, ndim)
            nlay = rng.choice([2, 3, 3, 4, 5])
            orders = cm.gen_layout_chain(rng, ndim, nlay, len(nprocs))
            layouts = [[n, o] for n, o in zip(cm.LAYOUT_NAMES, orders)]
        shape = cm.gen_shape(rng, ndim, nprocs, [o for _, o in layouts])
        cfg = dict(mgr='handler', nprocs=nprocs, shape=shape, layouts=layouts, P=int(np.prod(nprocs)))
        names = [n for n, _ in layouts]
    cfg['save'] = rng.random() < 0.75
    cfg['default_comm'] = rng.random() < 0.3
    if rng.random() < 0.25:
        cfg['twin'] = rng.choice(names)
        cfg['twin_walk'] = [rng.choice(names) for _ in range(rng.randint(1, 3))]
        cfg['default_comm'] = False
    cfg['dtype'] = rng.choice(['float64', 'complex128'])
    cfg['start'] = rng.choice(names)
    hist = []
    L = rng.randint(1, 25)
    while len(hist) < L:
        r = rng.random()
        if r < 0.35:
            # the time loop's pattern
            hist.append(['save'])
            for _ in range(rng.randint(0, 4)):
                hist.append(['set', rng.choice(names)])
                if rng.random() < 0.3:
                    hist.append(['overwrite'])
            hist.append(rng.choice([['restore'], ['restore'], ['free']]))
        elif r < 0.7:
            hist.append(['set', rng.choice(names)])
        elif r < 0.85:
            hist.append(['overwrite'])
        else:
            hist.append(rng.choice([['save'], ['restore'], ['free']]))
    cfg['history'] = hist[:25]
    s = simworld.random_sched(rng, 0)
    s['poison'] = rng.random() < 0.8
    cfg['sched'] = s
    return cfg


def run(case, tape=None):
    P = case['P']
    dt = cm.np_dtype(case['dtype'])
    shape = case['shape']

    def rank_fn(comm, rank):
        from pygyro.model.grid import Grid
        w = simworld.current()[0]
        if case['mgr'] == 'handler':
            mgr = c01.build_handler(comm, case)
        else:
            mgr = c03.build_swapper(comm, case)
        eta = [np.arange(n, dtype=float) for n in shape]
        if case.get('default_comm'):
            grid = Grid(eta, [], mgr, case['start'], dtype=dt, allocateSaveMemory=case['save'])     # comm=MPI.COMM_WORLD
        else:
            grid = Grid(eta, [], mgr, case['start'], comm, dtype=dt, allocateSaveMemory=case['save'])
        eta0 = [np.array(e, copy=True) for e in eta]
        twin = None
        if case.get('twin'):
            # a second Grid on the same layout manager and the same coordinate arrays (as f's and phi's grids
            # share theirs): whatever is done to one must leave the other alone
            twin_layout = case['twin']
            twin = Grid(eta, [], mgr, twin_layout, comm, dtype=dt, allocateSaveMemory=case['save'])
            G2 = cm.global_array(shape, case['dtype'], 4242)
            twin.getAllData()[:] = cm.local(G2, mgr.getLayout(twin_layout))
        salt = 0
        G = cm.global_array(shape, case['dtype'], salt)
        grid.getAllData()[:] = cm.local(G, mgr.getLayout(case['start']))
        layout = case['start']
        saved = None
        has_save = bool(case['save'])
        states = set()

        def compare(step, op):
            if grid.currentLayout != layout:
                raise OracleFail('wrong-layout', dict(step=step, op=op, rank=rank, got=grid.currentLayout, want=layout))
            want = cm.local(G, mgr.getLayout(layout))
            got = grid.getAllData()
            if not cm.bits_equal(got, want):
                raise OracleFail('wrong-data', dict(step=step, op=op, rank=rank, layout=layout,
                                                    saved=None if saved is None else saved[1],
                                                    diff=cm.first_diff(got, want)))
            # the local-to-global accessors must follow the grid's current layout after every operation
            lay_now = mgr.getLayout(layout)
            zero = (0,) * got.ndim
            gi = grid.getGlobalIndices(*zero)
            want_gi = [0] * got.ndim
            for i_, d_ in enumerate(lay_now.dims_order):
                want_gi[d_] = int(lay_now.starts[i_])
            if [int(x) for x in gi] != want_gi or \
                    [list(grid.getGlobalIdxVals(i_))[:1] for i_ in range(got.ndim) if got.shape[i_]] != \
                    [[int(lay_now.starts[i_])] for i_ in range(got.ndim) if got.shape[i_]]:
                raise OracleFail('stale-accessor', dict(step=step, op=op, rank=rank, layout=layout,
                                                        getGlobalIndices=[int(x) for x in gi], want=want_gi))
            # the slice accessors must look at the same memory as getAllData()
            z = (0,) * (got.ndim - 1)
            if got.size and not cm.bits_equal(grid.get1DSlice(*z), got[z]):
                raise OracleFail('wrong-data', dict(step=step, op=op, rank=rank, why='get1DSlice is a stale view'))
            if got.size and got.ndim >= 2 and not cm.bits_equal(grid.get2DSlice(*z[:-1]), got[z[:-1]]):
                raise OracleFail('wrong-data', dict(step=step, op=op, rank=rank, why='get2DSlice is a stale view'))
            if twin is not None:
                if twin.currentLayout != twin_layout or \
                        not cm.bits_equal(twin.getAllData(), cm.local(G2, mgr.getLayout(twin_layout))):
                    raise OracleFail('wrong-data', dict(step=step, op=op, rank=rank,
                                                        why='another Grid on the same layout manager was disturbed'))
            for d_, (e_now, e_was) in enumerate(zip(eta, eta0)):
                if not cm.bits_equal(e_now, e_was):
                    raise OracleFail('wrong-data', dict(step=step, op=op, rank=rank, dim=d_,
                                                        why='the caller\'s coordinate array was modified'))
            if rank == 0:
                states.add((layout, saved is not None, None if saved is None else saved[1],
                            getattr(grid, '_dataIdx', None), getattr(grid, '_buffIdx', None),
                            getattr(grid, '_saveIdx', None)))

        compare(-1, ['init'])
        for step, op in enumerate(case['history']):
            kind = op[0]
            legal = True
            if kind in ('save', 'restore', 'free'):
                if kind == 'save' and saved is not None:
                    legal = False
                elif kind in ('restore', 'free') and saved is None:
                    legal = False
                elif kind == 'save' and not has_save:
                    legal = None          # not named by the property: refusing and allocating on demand are both fine
            try:
                if kind == 'set':
                    grid.setLayout(cm.fresh(op[1]))
                elif kind == 'overwrite':
                    salt += 1
                    Gn = cm.global_array(shape, case['dtype'], salt)
                    grid.getAllData()[:] = cm.local(Gn, mgr.getLayout(layout))
                elif kind == 'save':
                    grid.saveGridValues()
                elif kind == 'restore':
                    grid.restoreGridValues()
                elif kind == 'free':
                    grid.freeGridSave()
                raised = None
            except (simworld.SimAbort, OracleFail, Skip):
                raise
            except Exception as e:   # noqa
                raised = e
            if legal is None:
                if raised is None:
                    has_save = True
                    legal = True
                else:
                    legal = False
                    raised = raised
            elif legal and raised is not None:
                raise raised
            if not legal:
                if raised is None:
                    raise OracleFail('illegal-op-accepted', dict(step=step, op=op, rank=rank,
                                                                 saved=saved is not None, save_memory=case['save']))
                if rank == 0:
                    w.probe('illegal_op_refused')
            else:
                if kind == 'set':
                    layout = op[1]
                elif kind == 'overwrite':
                    G = Gn
                elif kind == 'save':
                    saved = (G, layout)
                elif kind == 'restore':
                    G, layout = saved
                    saved = None
                elif kind == 'free':
                    saved = None
            compare(step, op)
        if twin is not None:
            # and the other way round: move the twin through every layout, the first grid must not notice
            names_all = [n for n in (case.get('twin_walk') or [])]
            for n in names_all:
                twin.setLayout(n)
                twin_layout = n
                compare(len(case['history']), ['twin-set', n])
            if rank == 0:
                w.probe('two_grids_on_one_manager')
        if rank == 0:
            w.probe('states_seen', len(states))
        return sorted(map(repr, states))

    def post(w, results):
        hist = case['history']
        changes = sum(1 for op in hist if op[0] == 'set')
        probes = {}
        held = False
        k = 0
        for op in hist:
            if op[0] == 'save' and case['save']:
                held = True
                k = 0
            elif op[0] == 'set' and held:
                k += 1
            elif op[0] in ('restore',) and held:
                if k >= 1:
                    probes['restore_after_layout_changes'] = 1
                if k >= 2:
                    probes['restore_after_2plus_layout_changes'] = 1
                held = False
            elif op[0] == 'free':
                held = False
        probes['mgr_' + case['mgr']] = 1
        if case.get('random_groups'):
            probes['swapper_random_groups'] = 1
        probes['save_memory' if case['save'] else 'no_save_memory'] = 1
        return dict(nontrivial=(P > 1 and changes > 0), probes=probes)

    return execute(ID, P, case['sched'], tape, rank_fn, post)


def shrink(case):
    h = case['history']
    if len(h) > 1:
        yield dict(case, history=h[:-1])
        for i in range(len(h)):
            yield dict(case, history=h[:i] + h[i + 1:])
    if case.get('twin'):
        c = dict(case)
        c.pop('twin')
        c.pop('twin_walk', None)
        yield c
    if case['dtype'] != 'float64':
        yield dict(case, dtype='float64')
    if case['mgr'] == 'handler':
        for j, p in enumerate(case['nprocs']):
            if p > 1:
                np2 = list(case['nprocs'])
                np2[j] = p - 1
                yield dict(case, nprocs=np2, P=int(np.prod(np2)))
        need = [1] * len(case['shape'])
        for _, o in case['layouts']:
            for j, p in enumerate(case['nprocs']):
                need[o[j]] = max(need[o[j]], p)
        for d, n in enumerate(case['shape']):
            if n > need[d]:
                s = list(case['shape'])
                s[d] = n - 1
                yield dict(case, shape=s)


_gen_plain = gen


def gen(rng, tier, idx):
    case = _gen_plain(rng, tier, idx)
    if not case.get('default_comm') and not case.get('systematic'):
        cm.maybe_bystanders(rng, case['sched'], case['P'])
    return case
