"""C16 - density is the exact velocity integral of the interpolated distribution
(DESIGN.md section 6)."""
import numpy as np

import simworld
from harness import Multi, OracleFail, Skip
from checks import common as cm
from checks import phys
from refs import reference as ref

ID = 'C16'
HASHSEED_EVERY = {'quick': 150, 'thorough': 1000}     # one case in so many is also run under other string-hash seeds (harness._run_hashseed_invariant)
BUDGET = {'quick': 3000, 'thorough': 200000}
WALL = {'quick': 120, 'thorough': 2400}
CHUNK = 8
DET_K = 4
SELFTEST = {'quick': 16, 'thorough': 128}
TOL = 1e-11
REQUIRED_PROBES = ['fn_pert', 'fn_rho', 'storage_complex128', 'storage_float64', 'two_finders_on_one_spline', 'data_equilibrium']
RULE = ("Every check: in 12% of the cases one or two bystander ranks share the simulated job and the code under test runs on world.Split(...); one case in HASHSEED_EVERY is re-run in fresh interpreters under other string-hash seeds and every rank's trace (collectives, data sent, result) must agree. "
        'Also: a second finder on the same spline (40%), the same finder called again with other data and the other function (40%) and on a distribution function over another process grid (40%), a finder on a graded (symmetric or one-sided) velocity mesh with the same degree, size and end points (25%), other degrees in r, theta, z (20%), 261-384 velocity points (3%). '
        'case = (grid sizes incl. several v sizes, equilibrium profiles made strongly radius dependent '
        '[kN0, kTi randomised], 1-3 process grids incl. non-dividing ones, density storage real or complex, '
        'getRho or getPerturbedRho, input kind: random / random spline in the space / the equilibrium itself / '
        'linear combination).  f is placed in the v_parallel layout on every rank; the assembled density is '
        'compared with the exact integral over v of an independent scipy interpolating spline of each '
        'f(r,theta,z,.) line (minus the integral of f_eq at the point\'s own global radius).  non-trivial = '
        'some World with P > 1; distinct = distinct case tuples')
ASSUMPTIONS = ['the v grid is the set of interpolation points reported by the code; the spline space is clamped, degree from the constants']


def gen(rng, tier, idx):
    npts = [rng.randint(5, 9), rng.randint(5, 8), rng.randint(7, 9), rng.randint(5, 12)]
    if rng.random() < 0.03:
        npts[3] = rng.choice([261, 300, 384])          # "all v-grid sizes": also more than 256 cells
    ckw = phys.gen_constants(rng, amplified=True, npts=npts)
    ckw['kN0'] = rng.choice([0.055, 0.3, 0.6])
    ckw['kTi'] = rng.choice([0.27586, 0.05, 0.5])
    vdeg = rng.choice([3, 3, 3, 2, 4, 5])
    if npts[3] >= vdeg + 2:
        ckw['splineDegrees'] = [3, 3, 3, vdeg]      # degree 3 takes the uniform-cubic path
    if rng.random() < 0.2:
        # other degrees in r, theta, z: the nodes move (cell midpoints for even degrees), the v integral must not care
        dg = ckw.get('splineDegrees') or [3, 3, 3, 3]
        dg = [rng.choice([2, 3, 4, 5]) for _ in range(3)] + [dg[3]]
        for d in range(3):
            npts[d] = max(npts[d], dg[d] + 3)
        ckw['splineDegrees'] = dg
        ckw['npts'] = [int(x) for x in npts]
    grids = phys.pick_grids(rng, npts, rng.choice([1, 1, 2]))
    if rng.random() < 0.3:
        grids = [[1, 1]] + grids
    sched = simworld.random_sched(rng, 0)
    sched['poison'] = rng.random() < 0.7
    return dict(P=max(g[0] * g[1] for g in grids), ckw=ckw, grids=grids,
                storage=rng.choice(['complex128', 'float64']), fn=rng.choice(['pert', 'pert', 'rho']),
                data=rng.choice(['random', 'random', 'equilibrium', 'combo', 'scaled']),
                dseed=rng.randrange(1 << 30), second_finder=rng.random() < 0.4, again=rng.random() < 0.4, regrid=rng.random() < 0.4, graded=rng.random() < 0.25, sched=sched)


def make_field(case, eta, cdict):
    npts = case['ckw']['npts']
    rs = np.random.RandomState(case['dseed'] % (2 ** 31))
    feq = ref.f_eq(eta[0], eta[3], cdict)[:, None, None, :] * np.ones(npts)
    if case['data'] == 'random':
        return rs.standard_normal(npts)
    if case['data'] == 'equilibrium':
        return feq
    if case['data'] == 'scaled':
        return feq * (1.0 + 0.3 * rs.standard_normal(npts))
    a, b = rs.uniform(-2, 2, 2)
    return a * rs.standard_normal(npts) + b * feq


def run(case, tape=None):
    M = Multi(ID, tape)
    ckw = case['ckw']
    npts = ckw['npts']
    worst = [0.0]
    for g in case['grids']:
        P = g[0] * g[1]
        holder = {}
        alt = None
        if case.get('regrid'):
            cand = [a for a in phys.admissible_grids(npts) if a[0] * a[1] == P and list(a) != list(g)]
            if cand:
                alt = cand[case['dseed'] % len(cand)]

        def rank_fn(comm, rank, alt=alt):
            from pygyro.model.layout import getLayoutHandler
            from pygyro.model.grid import Grid
            from pygyro.poisson.poisson_solver import DensityFinder
            f, constants = phys.setup_f(comm, ckw, 'v_parallel')
            phys.check_forced(f, g)
            eta = [np.asarray(e) for e in f.eta_grid]
            cdict = ref.constants_dict(constants)
            F = make_field(case, eta, cdict)
            f.getAllData()[:] = cm.local(F, f.getLayout('v_parallel'))
            nprocs = f.getLayout('v_parallel').nprocs[:2]
            rem = getLayoutHandler(comm, {'v_parallel_2d': [0, 2, 1], 'mode_solve': [1, 2, 0]}, nprocs, f.eta_grid[:3])
            rho = Grid(f.eta_grid[:3], f.getSpline(slice(0, 3)), rem, 'v_parallel_2d', comm,
                       dtype=cm.np_dtype(case['storage']))
            cm.poison(rho.getAllData())
            df = DensityFinder(6, f.getSpline(3), f.eta_grid, constants)
            if case.get('second_finder'):
                # another finder on the same v spline (e.g. one per density grid): neither may disturb the other
                rho2 = Grid(f.eta_grid[:3], f.getSpline(slice(0, 3)), rem, 'v_parallel_2d', comm, dtype=np.complex128)
                df2 = DensityFinder(6, f.getSpline(3), f.eta_grid, constants)
                df2.getRho(f, rho2)
                first = np.array(np.real(rho2.getAllData()), copy=True)
                df.getRho(f, rho2)
                if not (phys.relerr(np.real(rho2.getAllData()), first) <= 1e-13):
                    raise OracleFail('finders-disagree', dict(rank=rank, relerr=phys.relerr(np.real(rho2.getAllData()), first)))
                if case['dseed'] % 2:
                    df = df2
            keep2 = np.array(rho2.getAllData(), copy=True) if case.get('second_finder') else None
            if case['fn'] == 'pert':
                df.getPerturbedRho(f, rho)
            else:
                df.getRho(f, rho)
            out = phys.block(rho)
            if keep2 is not None and not cm.bits_equal(rho2.getAllData(), keep2):
                raise OracleFail('density-differs', dict(rank=rank, why='computing one density grid changed another grid on the same layout manager'))
            again = None
            if case.get('again'):
                # the same finder and density grid used for the next time step (other data, the other function)
                F2 = make_field(dict(case, dseed=case['dseed'] + 313, data='combo'), eta, cdict)
                f.getAllData()[:] = cm.local(F2, f.getLayout('v_parallel'))
                if case['fn'] == 'pert':
                    df.getRho(f, rho)
                else:
                    df.getPerturbedRho(f, rho)
                again = phys.block(rho)
            graded = None
            if case.get('graded'):
                # a velocity spline on non-uniform breaks with the same degree, size and end points as the one used
                # above (a mesh refined around v = 0): its own quadrature weights, whatever was computed before
                from pygyro.splines import splines as spl
                vs = f.getSpline(3)
                pdeg = int(vs.degree)
                nb_cells = int(npts[3]) - pdeg
                u = np.linspace(-1.0, 1.0, nb_cells + 1)
                vlo, vhi = float(cdict['vMin']), float(cdict['vMax'])
                if case['dseed'] % 2:
                    gb = vlo + (vhi - vlo) * 0.5 * (1.0 + np.sign(u) * np.abs(u) ** 1.7)      # refined around the centre
                else:
                    gb = vlo + (vhi - vlo) * (0.5 * (u + 1.0)) ** 1.6                          # refined towards vMin: not symmetric
                gb[0], gb[-1] = vlo, vhi
                bsv = spl.BSplines(spl.make_knots(gb, pdeg, False), pdeg, False, False)
                eta_g = [f.eta_grid[0], f.eta_grid[1], f.eta_grid[2], np.asarray(bsv.greville)]
                h4g = getLayoutHandler(comm, dict(phys.STD_LAYOUTS), list(nprocs), eta_g)
                f_g = Grid(eta_g, [f.getSpline(0), f.getSpline(1), f.getSpline(2), bsv], h4g, 'v_parallel', comm)
                Fg = np.random.RandomState((case['dseed'] + 909) % (2 ** 31)).standard_normal(npts)
                f_g.getAllData()[:] = cm.local(Fg, f_g.getLayout('v_parallel'))
                rho_g = Grid(f.eta_grid[:3], f.getSpline(slice(0, 3)), rem, 'v_parallel_2d', comm, dtype=np.float64)
                cm.poison(rho_g.getAllData())
                dfg = DensityFinder(6, bsv, eta_g, constants)
                if case['dseed'] % 3:
                    dfg.getPerturbedRho(f_g, rho_g)
                else:
                    dfg.getRho(f_g, rho_g)
                graded = (phys.block(rho_g), [float(x) for x in gb], [float(x) for x in eta_g[3]]) if True else None
            other = None
            if alt is not None:
                # the same finder on a distribution function distributed over another process grid of the same
                # communicator (same layout names): whatever the finder keeps must follow the grid it is handed
                h4 = getLayoutHandler(comm, dict(phys.STD_LAYOUTS), list(alt), f.eta_grid)
                f_b = Grid(f.eta_grid, [f.getSpline(i) for i in range(4)],
                           h4, 'v_parallel', comm)
                F3 = make_field(dict(case, dseed=case['dseed'] + 626, data='scaled'), eta, cdict)
                f_b.getAllData()[:] = cm.local(F3, f_b.getLayout('v_parallel'))
                rem_b = getLayoutHandler(comm, {'v_parallel_2d': [0, 2, 1], 'mode_solve': [1, 2, 0]}, list(alt), f.eta_grid[:3])
                rho_b = Grid(f.eta_grid[:3], f.getSpline(slice(0, 3)), rem_b, 'v_parallel_2d', comm,
                             dtype=cm.np_dtype(case['storage']))
                cm.poison(rho_b.getAllData())
                df.getPerturbedRho(f_b, rho_b)
                other = phys.block(rho_b)
            return dict(rho=out, again=again, other=other, graded=graded, eta=eta if rank == 0 else None,
                        cdict=cdict if rank == 0 else None)

        def post(w, results):
            eta = results[0]['eta']
            cdict = results[0]['cdict']
            F = make_field(case, eta, cdict)
            got = phys.assemble([r['rho'] for r in results], npts[:3], 'rho')
            want = ref.density_ref(F, eta, cdict, case['fn'] == 'pert')
            scale = float(np.max(np.abs(F))) * float(eta[3][-1] - eta[3][0])
            err = float(np.max(np.abs(got - want))) / scale
            worst[0] = max(worst[0], err)
            if not (err <= TOL):
                raise OracleFail('density-differs', dict(grid=g, relerr=err, fn=case['fn'], data=case['data'],
                                                         storage=case['storage']))
            if case['storage'] == 'complex128' and float(np.max(np.abs(got.imag))) != 0.0:
                raise OracleFail('density-imaginary', dict(grid=g, imag=float(np.max(np.abs(got.imag)))))
            if case['data'] == 'equilibrium' and case['fn'] == 'pert':
                if float(np.max(np.abs(got))) > 1e-12 * scale:
                    raise OracleFail('equilibrium-density-nonzero', dict(grid=g, max=float(np.max(np.abs(got)))))
            if case.get('again'):
                F2 = make_field(dict(case, dseed=case['dseed'] + 313, data='combo'), eta, cdict)
                got2 = phys.assemble([r['again'] for r in results], npts[:3], 'rho (second call)')
                want2 = ref.density_ref(F2, eta, cdict, case['fn'] != 'pert')
                scale2 = max(float(np.max(np.abs(F2))), float(np.max(np.abs(F)))) * float(eta[3][-1] - eta[3][0])
                err2 = float(np.max(np.abs(got2 - want2))) / scale2
                if not (err2 <= TOL):
                    raise OracleFail('density-differs', dict(grid=g, relerr=err2, why='second call on the same finder and grid'))
            pr = {'grid_%dx%d' % (g[0], g[1]): 1}
            if results[0].get('graded') is not None:
                gb, vg = results[0]['graded'][1], np.asarray(results[0]['graded'][2])
                Fg = np.random.RandomState((case['dseed'] + 909) % (2 ** 31)).standard_normal(npts)
                gotg = phys.assemble([r['graded'][0] for r in results], npts[:3], 'rho (graded velocity spline)')
                wg = ref.ClampedInterp(vg, np.asarray(gb), int(cdict['splineDegrees'][3])).quadrature_weights()
                wantg = Fg @ wg
                if case['dseed'] % 3:
                    wantg = wantg - (ref.f_eq(eta[0], vg, cdict) @ wg)[:, None, None]
                errg = float(np.max(np.abs(gotg - wantg))) / (float(np.max(np.abs(Fg))) * (gb[-1] - gb[0]))
                if not (errg <= TOL):
                    raise OracleFail('density-differs', dict(grid=g, relerr=errg, why='velocity spline on non-uniform breaks'))
                pr['graded_velocity_spline'] = 1
            if results[0].get('other') is not None:
                F3 = make_field(dict(case, dseed=case['dseed'] + 626, data='scaled'), eta, cdict)
                got3 = phys.assemble([r['other'] for r in results], npts[:3], 'rho (other process grid, same finder)')
                want3 = ref.density_ref(F3, eta, cdict, True)
                scale3 = float(np.max(np.abs(F3))) * float(eta[3][-1] - eta[3][0])
                err3 = float(np.max(np.abs(got3 - want3))) / scale3
                if not (err3 <= TOL):
                    raise OracleFail('density-differs', dict(grid=g, relerr=err3,
                                                             why='same finder used on a grid over another process grid'))
                pr['finder_reused_on_other_process_grid'] = 1
            return dict(probes=pr)
        with phys.force_procs({P: g}):
            res = M.run(P, case['sched'], rank_fn, post)
        if res['status'] != 'ok':
            break
    probes = {'fn_' + case['fn']: 1, 'data_' + case['data']: 1, 'storage_' + case['storage']: 1}
    if case.get('second_finder'):
        probes['two_finders_on_one_spline'] = 1
    if case.get('again'):
        probes['finder_reused'] = 1
    return M.finish(extra=dict(nontrivial=case['P'] > 1, probes=probes))


def shrink(case):
    if len(case['grids']) > 1:
        for g in case['grids']:
            yield dict(case, grids=[g], P=g[0] * g[1])
    if case['data'] != 'random':
        yield dict(case, data='random')
    if case['storage'] != 'float64':
        yield dict(case, storage='float64')
    for d in range(4):
        lo = max(7 if d == 2 else 5, (case['ckw'].get('splineDegrees') or [3, 3, 3, 3])[d] + 3)
        if case['ckw']['npts'][d] > lo:
            n2 = list(case['ckw']['npts'])
            n2[d] -= 1
            if all(g in phys.admissible_grids(n2) for g in case['grids']):
                c = dict(case)
                c['ckw'] = dict(case['ckw'], npts=n2)
                yield c


_gen_plain = gen


def gen(rng, tier, idx):
    case = _gen_plain(rng, tier, idx)
    if True:
        cm.maybe_bystanders(rng, case['sched'], case['P'])
    return case
