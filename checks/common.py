"""Helpers shared by the checks: global reference arrays, independent partition
arithmetic, layout-set generators, comparison utilities."""
import itertools

import numpy as np

from harness import OracleFail, Skip


# ---------------------------------------------------------------------------
# the "one undistributed array" every data-movement oracle compares with
# ---------------------------------------------------------------------------
def global_array(shape, dtype='float64', salt=0):
    """Every element unique and encoding its global ravel index."""
    n = int(np.prod(shape))
    base = np.arange(1, n + 1, dtype=np.int64).reshape(shape) + int(salt) * (n + 7)
    if dtype == 'float64':
        return base.astype(np.float64) + 0.25
    if dtype == 'complex128':
        return base.astype(np.float64) + 0.25 + 1j * (base.astype(np.float64) * 3.0 + 0.5)
    if dtype == 'int64':
        return base.copy()
    raise ValueError(dtype)


def local_of(G, dims_order, starts, ends):
    sl = tuple(slice(int(s), int(e)) for s, e in zip(starts, ends))
    return np.ascontiguousarray(G.transpose(tuple(dims_order))[sl])


def local(G, layout):
    return local_of(G, layout.dims_order, layout.starts, layout.ends)


def bits_equal(a, b):
    a = np.ascontiguousarray(a)
    b = np.ascontiguousarray(b)
    return a.shape == b.shape and a.dtype == b.dtype and a.tobytes() == b.tobytes()


def first_diff(a, b):
    a = np.asarray(a)
    b = np.asarray(b)
    if a.shape != b.shape:
        return dict(shape_got=list(a.shape), shape_want=list(b.shape))
    bad = np.argwhere(~((a == b) | ((a != a) & (b != b))))
    if bad.size == 0:
        return dict(note='differs only in bit pattern')
    i = tuple(int(x) for x in bad[0])
    return dict(index=list(i), got=repr(a[i]), want=repr(b[i]), n_bad=int(len(bad)))


def poison(arr):
    k = arr.dtype.kind
    if k == 'c':
        arr.fill(complex(np.nan, np.nan))       # both parts: a routine that writes only the real part must be seen
    elif k == 'f':
        arr.fill(np.nan)
    else:
        arr.fill(-0x5A5A5A5A)
    return arr


def np_dtype(name):
    return {'float64': np.float64, 'complex128': np.complex128, 'int64': np.int64}[name]


# ---------------------------------------------------------------------------
# balanced partition: what the property demands, not how the code computes it
# ---------------------------------------------------------------------------
def check_partition(n, tables, what):
    """tables: list over cart coordinate k of (start, end).  Must tile [0,n) in
    order, lengths >= 1 and differing by at most one."""
    pos = 0
    lens = []
    for k, (s, e) in enumerate(tables):
        if s != pos:
            raise OracleFail('partition', dict(what=what, why='gap or overlap', coord=k,
                                               start=int(s), expected=int(pos), n=n))
        if e <= s:
            raise OracleFail('partition', dict(what=what, why='empty or negative block', coord=k,
                                               start=int(s), end=int(e), n=n))
        lens.append(e - s)
        pos = e
    if pos != n:
        raise OracleFail('partition', dict(what=what, why='does not end at n', end=int(pos), n=n))
    if max(lens) - min(lens) > 1:
        raise OracleFail('partition', dict(what=what, why='unbalanced', lengths=[int(x) for x in lens]))
    return lens


# ---------------------------------------------------------------------------
# generators
# ---------------------------------------------------------------------------
def gen_nprocs(rng, ndim, maxP=12, allow3=True, wide=False):
    """A process grid: list of 1..3 extents in 1..4 (1..6 when wide), product <= maxP."""
    if rng.random() < 0.04 and maxP >= 7:
        return [rng.randint(7, min(maxP, 13))]          # many processes along one direction
    while True:
        k = rng.choice([1, 2, 2, 2, 2, 3] if (allow3 and ndim >= 3) else [1, 2, 2, 2])
        k = min(k, ndim)
        g = [rng.choice([1, 1, 2, 2, 3, 3, 4, 5, 6] if wide else [1, 1, 2, 2, 3, 3, 4]) for _ in range(k)]
        if rng.random() < 0.15:
            g[0] = 1                      # leading extent 1 (finding F1 lives here)
        P = int(np.prod(g))
        if P <= maxP:
            return g


def gen_shape(rng, ndim, nprocs, layouts):
    """Extents 1..9 biased to small / equal to a process count / not divisible,
    every rank owning >= 1 point in every layout."""
    need = [1] * ndim
    for order in layouts:
        for j, p in enumerate(nprocs):
            need[order[j]] = max(need[order[j]], p)
    shape = []
    for d in range(ndim):
        lo = need[d]
        r = rng.random()
        if r < 0.25:
            n = lo                                   # extent == process count (or 1)
        elif r < 0.5 and lo > 1:
            n = lo * rng.randint(1, 2) + rng.randint(1, lo - 1)   # not divisible
        elif r < 0.6:
            n = lo * rng.randint(1, 3)               # divisible
        elif r < 0.97:
            n = rng.randint(lo, max(lo, 9))
        else:
            n = rng.randint(lo, lo + 14)
        shape.append(int(n))
    return shape


def gen_layout_chain(rng, ndim, nlay, ndist):
    """Layout orderings biased towards connected sets: each new ordering is
    obtained from an earlier one by a swap (with some fully random ones)."""
    perms = [list(p) for p in itertools.permutations(range(ndim))]
    out = [list(rng.choice(perms))]
    while len(out) < nlay:
        r = rng.random()
        if r < 0.15:
            out.append(list(rng.choice(perms)))
        elif r < 0.25:
            out.append(list(rng.choice(out)))                      # duplicate ordering
        else:
            base = list(rng.choice(out))
            i, j = rng.sample(range(ndim), 2)
            if rng.random() < 0.6 and ndist >= 1:
                i = rng.randrange(min(ndist, ndim))                # touch a distributed slot
                j = rng.choice([x for x in range(ndim) if x != i])
            base[i], base[j] = base[j], base[i]
            out.append(base)
    return out


def layouts_connected(orders, nprocs):
    """The documented semantics of a layout handler: two orderings are one step apart when
    they differ in at most one *distributed* position; a set is acceptable when this graph
    is connected.  Used to decide whether a constructor exception is a legitimate refusal
    (whatever its type or message) or the rejection of valid input."""
    n = len(orders)
    dist = [i for i, p in enumerate(nprocs) if p > 1]
    adj = [[sum(1 for i in dist if orders[a][i] != orders[b][i]) < 2 for b in range(n)] for a in range(n)]
    seen = {0}
    todo = [0]
    while todo:
        a = todo.pop()
        for b in range(n):
            if adj[a][b] and b not in seen:
                seen.add(b)
                todo.append(b)
    return len(seen) == n


LAYOUT_NAMES = ['alpha', 'bravo', 'charlie', 'delta', 'echo', 'foxtrot', 'golf', 'hotel', 'india', 'juliett',
                'kilo', 'lima']


def refusal(e):
    """True when the exception is a documented, consistent refusal of the input."""
    s = str(e)
    if isinstance(e, RuntimeError) and ('could not be connected' in s or 'no valid combination' in s
                                        or 'equal number of layout sets' in s):
        return True
    return False


def maybe_bystanders(rng, sched, P, prob=0.12, maxtotal=16):
    """With probability `prob` add one or two ranks to the simulated job that take no part in the
    computation (see harness.execute): the code under test then runs on a proper sub-communicator."""
    if rng.random() < prob and P + 1 <= maxtotal:
        k = 1 if (rng.random() < 0.7 or P + 2 > maxtotal) else 2
        sched['bystanders'] = sorted(rng.sample(range(P + k), k))
    return sched


def fresh(name):
    """An equal but distinct str object (layout names reach the library parsed from files, formatted, unpickled:
    identity of the object must not matter).  Subclasses (salted names) are passed through."""
    if type(name) is str and len(name) > 1:
        return name[:1] + name[1:]
    return name
