"""C11 - v-parallel advection evaluates the interpolant at v - c*dt with the
boundary rule; the grid-level step uses the parallel gradient of the potential
at the same global position (DESIGN.md section 6).

Decided here: the grid-level clause over process grids.  The kernel clause (a pure
function) is exercised on every line only as a by-product of the comparison with
the sequential reference."""
import numpy as np

import simworld
from harness import Multi, OracleFail, Skip
from checks import common as cm
from checks import phys
from refs import reference as ref

ID = 'C11'
HASHSEED_EVERY = {'quick': 50, 'thorough': 300}     # one case in so many is also run under other string-hash seeds (harness._run_hashseed_invariant)
BUDGET = {'quick': 500, 'thorough': 40000}
WALL = {'quick': 150, 'thorough': 3000}
CHUNK = 6
REACH_N = 20
DET_K = 3
CASE_TIMEOUT = 600
SELFTEST = {'quick': 8, 'thorough': 96}
TOL = 1e-9
REQUIRED_PROBES = ['edge_fEq', 'edge_null', 'edge_periodic', 'shift_beyond_domain', 'tiny_shift', 'short_velocity_domain', 'asymmetric_velocity_domain', 'dt_negative', 'iota_nonzero']
RULE = ("Every check: in 12% of the cases one or two bystander ranks share the simulated job and the code under test runs on world.Split(...); one case in HASHSEED_EVERY is re-run in fresh interpreters under other string-hash seeds and every rank's trace (collectives, data sent, result) must agree. "
        'Also: step() on non-contiguous lines, step() with the same speed and other time steps against a never-used object, keep-gradient step with its own dt and an untouched table, a second gridStep with a new potential (35%), quintic theta splines and other r/z degrees (20%), asymmetric and short velocity domains, step() with a foot exactly on vMin / vMax. '
        'case = (grid sizes, v spline degree 2-5 [3 = uniform-cubic path], constants with rotational '
        'transform zero or not, boundary mode fEq / null / periodic, dt of either sign, random f and a random '
        'real potential whose amplitude spans 6 decades so that shifts range from 0 to beyond the domain, 1-3 '
        'process grids).  f in v_parallel, phi moved to v_parallel_1d through the driver\'s LayoutSwapper; '
        'gridStep then gridStepKeepGradient.  Reference (sequential, independent scipy splines): c = field-'
        'aligned finite-difference derivative of the theta-spline of phi at the same global (r,z,theta); new '
        'line = S[f](v - c dt) with the boundary rule.  Tolerance 1e-9 max|f| at nodes whose foot is not within '
        '1e-9 of the velocity bounds.  non-trivial = some World with P > 1; distinct = distinct case tuples')
ASSUMPTIONS = ['parallel-gradient order 6 (the driver\'s default); theta splines cubic periodic']


def gen(rng, tier, idx):
    vdeg = rng.choice([2, 3, 3, 3, 4, 5])
    npts = [rng.randint(5, 8), rng.randint(5, 8), rng.randint(7, 9), rng.randint(max(5, vdeg + 2), 9)]
    ckw = phys.gen_constants(rng, amplified=True, npts=npts)
    ckw['splineDegrees'] = [3, 3, 3, vdeg]
    if rng.random() < 0.2:
        # a quintic theta spline under the parallel gradient (r then of the general kind too: the pipeline's 2-D
        # poloidal spline wants both of one kind); any degree along z
        ckw['splineDegrees'] = [rng.choice([2, 4, 5]), 5, rng.choice([2, 3, 4, 5]), vdeg]
        for d in range(3):
            npts[d] = max(npts[d], ckw['splineDegrees'][d] + 3)
        ckw['npts'] = [int(x) for x in npts]
    # with the default vMax = 7.32 the equilibrium is ~1e-12 at the velocity bounds and the fEq fill value
    # would be invisible: cut the velocity domain (and heat the ions) so that it is O(1e-2..1e-1) there
    vmax = rng.choice([7.32, 3.0, 2.0, 1.5])
    ckw['vMax'] = vmax
    ckw['vMin'] = -round(vmax * rng.choice([1.0, 1.0, 0.6, 1.5]), 3)      # not necessarily symmetric about 0
    ckw['CTi'] = rng.choice([1.0, 1.0, 3.0])
    grids = phys.pick_grids(rng, npts, rng.choice([1, 2, 2, 3]))
    if rng.random() < 0.25 or not grids:
        grids = [[1, 1]] + grids
    sched = simworld.random_sched(rng, 0)
    sched['poison'] = rng.random() < 0.7
    return dict(P=max(g[0] * g[1] for g in grids), ckw=ckw, grids=grids,
                edge=rng.choice(['fEq', 'null', 'periodic']),
                amp=10.0 ** rng.uniform(-3, 3), dtsign=rng.choice([1, 1, -1]),
                fseed=rng.randrange(1 << 30), zero_phi=rng.random() < 0.05, again=rng.random() < 0.35, dt2_factor=rng.choice([1, 1, 2, -1]), sched=sched)


def fields(case):
    rs = np.random.RandomState(case['fseed'] % (2 ** 31))
    npts = case['ckw']['npts']
    F = rs.standard_normal(npts)
    PHI = case['amp'] * phys.smooth_noise(npts[:3], case['fseed'] + 5, amp=1.0)
    if case['zero_phi']:
        PHI = np.zeros(npts[:3])
    return F, PHI


def run(case, tape=None):
    M = Multi(ID, tape)
    ckw = case['ckw']
    npts = ckw['npts']
    F, PHI = fields(case)
    PHI2 = -0.5 * fields(dict(case, fseed=case['fseed'] + 77, zero_phi=False))[1]
    for g in case['grids']:
        P = g[0] * g[1]

        def rank_fn(comm, rank):
            f, constants = phys.setup_f(comm, ckw, 'v_parallel')
            phys.check_forced(f, g)
            pipe = phys.Pipeline(comm, f, constants, edge=case['edge'])
            dt = pipe.halfStep * case['dtsign']
            f.getAllData()[:] = cm.local(F, f.getLayout('v_parallel'))
            phi = pipe.phi
            phi.getAllData()[:] = cm.local(PHI, phi.getLayout('mode_solve'))
            phi.setLayout('v_parallel_1d')
            # step() stores its result in the caller's array whatever its memory layout (a column of a 2-D
            # array, a slice of a larger buffer): same values as for a contiguous copy.  An explicit refusal of
            # such an array is acceptable (compiled kernels may), a silent no-op is not.
            rs = np.random.RandomState(case['fseed'] % (2 ** 31))
            for trial in range(3):
                line = rs.standard_normal(npts[3])
                cval = float(rs.standard_normal() * 10.0 ** rs.uniform(-2, 1))
                rval = float(f.eta_grid[0][rs.randint(npts[0])])
                plain = np.array(line, copy=True)
                pipe.vParAdv.step(plain, dt, cval, rval)
                if trial == 0:
                    holder = np.full((npts[3], 3), 7.0)
                    view = holder[:, 1]
                elif trial == 1:
                    holder = np.full(2 * npts[3] + 1, 7.0)
                    view = holder[1::2]
                else:
                    holder = np.full(npts[3] + 4, 7.0)
                    view = holder[2:-2]
                view[:] = line
                try:
                    pipe.vParAdv.step(view, dt, cval, rval)
                except (TypeError, ValueError, AssertionError, NotImplementedError):
                    if rank == 0:
                        simworld.current()[0].probe('strided_line_refused')
                    continue
                if not cm.bits_equal(np.array(view, copy=True), plain):
                    raise OracleFail('advection-differs', dict(step='step() on a non-contiguous line', rank=rank,
                                                               layout=['column', 'every second', 'inner slice'][trial],
                                                               unchanged=bool(np.array_equal(view, line))))
                if trial == 0 and not (np.all(holder[:, 0] == 7.0) and np.all(holder[:, 2] == 7.0)):
                    raise OracleFail('advection-differs', dict(step='step() wrote outside its line', rank=rank))
            # a foot exactly on vMin or vMax is not outside [vMin, vMax]: the node takes the value of the spline there,
            # which interpolates the old nodal value at that end (no boundary rule)
            vv = np.asarray(f.eta_grid[3], dtype=float)
            for jn in sorted({1, len(vv) // 2, len(vv) - 2}):
                for end in (0, -1):
                    if jn == (0 if end == 0 else len(vv) - 1):
                        continue
                    shift = float(vv[jn] - vv[end])
                    if (vv - shift * 1.0)[jn] != vv[end]:
                        continue                      # not exactly representable on this mesh
                    a0 = np.array(line, copy=True)
                    pipe.vParAdv.step(a0, 1.0, shift, rval)
                    if not (abs(a0[jn] - line[end]) <= 1e-9 * max(1.0, float(np.max(np.abs(line))))):
                        raise OracleFail('advection-differs', dict(step='step(): foot exactly on %s' % ('vMin' if end == 0 else 'vMax'),
                                                                   rank=rank, node=jn, got=float(a0[jn]), want=float(line[end]),
                                                                   edge=case['edge']))
                    if rank == 0:
                        simworld.current()[0].probe('foot_exactly_on_a_velocity_bound')
            # step() keeps nothing from one call to the next: the same speed with another time step (half / full
            # step of a splitting, a reversal) gives what an object that was never used gives
            from pygyro.advection.advection import VParallelAdvection
            for dt2 in (2.0 * dt, -dt, dt):
                a1 = np.array(line, copy=True)
                a2 = np.array(line, copy=True)
                pipe.vParAdv.step(a1, dt2, cval, rval)
                fresh2 = VParallelAdvection(f.eta_grid, f.getSpline(3), constants, edge=case['edge'])
                fresh2.step(a2, dt2, cval, rval)
                if not cm.bits_equal(a1, a2):
                    raise OracleFail('advection-differs', dict(step='step() depends on earlier calls of the same object',
                                                               rank=rank, dt=float(dt2), c=cval,
                                                               relerr=float(np.max(np.abs(a1 - a2)))))
            pipe.parGradVals[:] = np.nan
            pipe.vParAdv.gridStep(f, phi, pipe.parGrad, pipe.parGradVals, dt)
            one = phys.block(f)
            l1d = phi.getLayout('v_parallel_1d')
            grad = ([0, 2, 1], [int(l1d.starts[0]), 0, 0], [int(l1d.ends[0]), npts[2], npts[1]],
                    np.array(pipe.parGradVals, copy=True))
            dtk = dt * case.get('dt2_factor', 1)
            kept = np.array(pipe.parGradVals, copy=True)
            pipe.vParAdv.gridStepKeepGradient(f, pipe.parGradVals, dtk)
            two = phys.block(f)
            if not cm.bits_equal(np.asarray(pipe.parGradVals), kept):
                raise OracleFail('gradient-differs', dict(rank=rank, why='the kept gradient table was modified by the step that uses it'))
            three = None
            if case.get('again'):
                # the same objects used for the next step with a new potential: nothing of the previous
                # gradient table or potential may survive
                phi.setLayout('mode_solve')
                phi.getAllData()[:] = cm.local(PHI2, phi.getLayout('mode_solve'))
                phi.setLayout('v_parallel_1d')
                pipe.vParAdv.gridStep(f, phi, pipe.parGrad, pipe.parGradVals, dt)
                three = phys.block(f)
            return dict(one=one, two=two, three=three, grad=grad, dt=float(dt),
                        eta=[np.asarray(x) for x in f.eta_grid] if rank == 0 else None,
                        cdict=ref.constants_dict(constants) if rank == 0 else None)

        def post(w, results):
            eta, cdict = results[0]['eta'], results[0]['cdict']
            dt = results[0]['dt']
            one = phys.assemble([r['one'] for r in results], npts, 'f after gridStep')
            two = phys.assemble([r['two'] for r in results], npts, 'f after gridStepKeepGradient')
            try:
                grad = phys.assemble([r['grad'] for r in results], npts[:3], 'parallel gradient table')
            except OracleFail:
                grad = None      # internal hand-over table in another layout: only the advected field is the property
            # reference in (r, z, theta[, v]) order
            Fz = F.transpose(0, 2, 1, 3)
            PHIz = PHI.transpose(0, 2, 1)
            gref = ref.parallel_gradient_ref(PHIz, eta, cdict)
            gscale = max(float(np.max(np.abs(gref))), 1e-300)
            ge = 0.0 if grad is None else float(np.max(np.abs(grad.transpose(0, 2, 1) - gref))) / gscale
            if not (ge <= 1e-9) and not case['zero_phi']:
                raise OracleFail('gradient-differs', dict(grid=g, relerr=ge, iota=cdict['iotaVal']))
            want1, safe1 = ref.vpar_advect_ref(Fz, gref, dt, eta, cdict, case['edge'])
            got1 = one.transpose(0, 2, 1, 3)
            scale = float(np.max(np.abs(F)))
            d1 = np.abs(got1 - want1)
            d1[~safe1] = 0.0
            if not (float(d1.max()) <= TOL * scale):
                i = np.unravel_index(int(np.argmax(d1)), d1.shape)
                raise OracleFail('advection-differs', dict(step='gridStep', grid=g, relerr=float(d1.max()) / scale,
                                                           at=[int(x) for x in i], edge=case['edge'],
                                                           speed=float(gref[i[:3]]), dt=dt))
            want2, safe2 = ref.vpar_advect_ref(got1, gref, dt * case.get('dt2_factor', 1), eta, cdict, case['edge'])
            got2 = two.transpose(0, 2, 1, 3)
            d2 = np.abs(got2 - want2)
            d2[~safe2] = 0.0
            scale2 = max(scale, float(np.max(np.abs(got1))))
            if not (float(d2.max()) <= TOL * scale2):
                i = np.unravel_index(int(np.argmax(d2)), d2.shape)
                raise OracleFail('advection-differs', dict(step='gridStepKeepGradient', grid=g,
                                                           relerr=float(d2.max()) / scale2, at=[int(x) for x in i],
                                                           edge=case['edge']))
            if case.get('again'):
                three = phys.assemble([r['three'] for r in results], npts, 'f after the second gridStep')
                gref2 = ref.parallel_gradient_ref(PHI2.transpose(0, 2, 1), eta, cdict)
                want3, safe3 = ref.vpar_advect_ref(got2, gref2, dt, eta, cdict, case['edge'])
                d3 = np.abs(three.transpose(0, 2, 1, 3) - want3)
                d3[~safe3] = 0.0
                scale3 = max(scale2, float(np.max(np.abs(got2))))
                if not (float(d3.max()) <= TOL * scale3):
                    i = np.unravel_index(int(np.argmax(d3)), d3.shape)
                    raise OracleFail('advection-differs', dict(step='second gridStep (new potential)', grid=g,
                                                               relerr=float(d3.max()) / scale3,
                                                               at=[int(x) for x in i], edge=case['edge']))
            width = eta[3][-1] - eta[3][0]
            shift = float(np.max(np.abs(gref))) * abs(dt) / width
            probes = {'grid_%dx%d' % (g[0], g[1]): 1}
            if shift > 1.0:
                probes['shift_beyond_domain'] = 1
            elif shift < 1e-3:
                probes['tiny_shift'] = 1
            if (~safe1).any() or (~safe2).any():
                probes['nodes_masked_at_branch_boundary'] = 1
            return dict(probes=probes)
        with phys.force_procs({P: g}):
            res = M.run(P, case['sched'], rank_fn, post)
        if res['status'] != 'ok':
            break
    probes = {'edge_' + case['edge']: 1, 'vdegree_%d' % ckw['splineDegrees'][3]: 1,
              'dt_negative' if case['dtsign'] < 0 else 'dt_positive': 1}
    if ckw.get('iotaVal'):
        probes['iota_nonzero'] = 1
    if case.get('again'):
        probes['second_step_new_potential'] = 1
    if ckw['splineDegrees'][1] != 3:
        probes['theta_degree_5'] = 1
    if ckw.get('vMax', 7.32) < 7:
        probes['short_velocity_domain'] = 1
    if ckw.get('vMin') is not None and ckw['vMin'] != -ckw.get('vMax', 7.32):
        probes['asymmetric_velocity_domain'] = 1
    return M.finish(extra=dict(nontrivial=case['P'] > 1, probes=probes))


def shrink(case):
    if len(case['grids']) > 1:
        for g in case['grids']:
            yield dict(case, grids=[g], P=g[0] * g[1])
    if case['edge'] != 'null':
        yield dict(case, edge='null')
    if case['ckw']['splineDegrees'] != [3, 3, 3, 3]:
        c = dict(case)
        c['ckw'] = dict(case['ckw'], splineDegrees=[3, 3, 3, 3])
        yield c
    if case['ckw'].get('iotaVal'):
        c = dict(case)
        c['ckw'] = dict(case['ckw'], iotaVal=0.0)
        yield c


_gen_plain = gen


def gen(rng, tier, idx):
    case = _gen_plain(rng, tier, idx)
    if True:
        cm.maybe_bystanders(rng, case['sched'], case['P'])
    return case
