"""C06, kind 'split': two independent simulations in one job.

The simulated world is split into two communicators; each half is handed its own
communicator and runs its own programme (set-up, reductions to a drawing rank,
checkpoint, restart from a folder with and without a checkpoint, or the solver
pipeline with diagnostics).  Every collective the library issues must go to the
communicator it was given: a collective that reaches the world instead meets ranks
that never issue it (deadlock monitor) or that issue something else at that position
(matching monitor).  Isolation oracle: each half returns exactly what the same
programme returns in a world of its own."""
import os

import numpy as np

import simworld
from harness import Multi, OracleFail, Skip, Scratch
from checks import common as cm
from checks import phys

LAYS = ['flux_surface', 'v_parallel', 'poloidal']


def _gen_prog(rng, P, tag):
    kind = rng.choice(['setup', 'setup', 'setup', 'pipeline', 'idle'])
    npts = [rng.randint(5, 8), rng.randint(5, 8), rng.randint(7, 9), rng.randint(5, 8)]
    p = dict(kind=kind, npts=npts, start=rng.choice(LAYS), folder='run_' + tag,
             walk=[rng.choice(LAYS) for _ in range(rng.randint(1, 3))],
             draw=rng.randrange(P), root=rng.randrange(P), fix_axis=rng.randrange(4),
             restart_empty=rng.random() < 0.7, restart_ckpt=rng.random() < 0.7,
             write_t=rng.choice([0, 3, 10, 250]))
    p['fix_val'] = rng.randrange(npts[p['fix_axis']])
    if kind == 'pipeline':
        p['ckw'] = phys.gen_constants(rng, amplified=True, npts=npts)
        p['save_step'] = rng.randint(1, 3)
    return p


def gen_split(rng, tier, idx, arrival_sched):
    Pa, Pb = rng.choice([1, 2, 2, 3, 4]), rng.choice([1, 1, 2, 2, 3])
    P = Pa + Pb
    colors = [0] * Pa + [1] * Pb
    how = rng.choice(['blocked', 'interleaved', 'reversed'])
    if how == 'interleaved':
        rng.shuffle(colors)
    elif how == 'reversed':
        colors.reverse()
    progs = [_gen_prog(rng, Pa, 'a'), _gen_prog(rng, Pb, 'b')]
    if progs[0]['kind'] == 'idle' and progs[1]['kind'] == 'idle':
        progs[0]['kind'] = 'setup'
    return dict(kind='split', P=P, colors=colors, progs=progs, dup=rng.random() < 0.3,
                key_reversed=rng.random() < 0.3, sched=arrival_sched(rng, P, idx, tier))


# ---------------------------------------------------------------------------
def _ops(grid, sub, prog, out, tagname):
    vals = []
    for lay in prog['walk']:
        grid.setLayout(lay)
        vals.append(grid.getMin(prog['draw']))
        vals.append(grid.getMax(prog['draw'], prog['fix_axis'], prog['fix_val']))
        vals.append(grid.getMin())
    out[tagname] = [None if v is None else float(v) for v in vals]


def _prog_setup(sub, prog):
    from pygyro.initialisation.setups import setupCylindricalGrid, setupFromFile
    from pygyro.utilities.savingTools import setupSave
    out = {}
    try:
        grid, constants, t = setupCylindricalGrid(npts=list(prog['npts']), layout=prog['start'], comm=sub,
                                                  allocateSaveMemory=True)
    except RuntimeError as e:
        if cm.refusal(e):
            raise Skip(str(e))
        raise
    _ops(grid, sub, prog, out, 'vals')
    folder = setupSave(constants, prog['folder'], sub, prog['root'])
    out['folder'] = os.path.basename(os.path.normpath(folder))
    sub.Barrier()
    if prog['restart_empty']:
        # a run that stopped before its first checkpoint: parameters only
        g2, c2, t2 = setupFromFile(folder, comm=sub, allocateSaveMemory=True, layout=prog['walk'][0])
        _ops(g2, sub, prog, out, 'vals_empty_restart')
        out['t_empty'] = int(t2)
        g2.getBlockFromDict({prog['fix_axis']: prog['fix_val']}, sub, prog['draw'])
    grid.setLayout(prog['walk'][-1])
    grid.writeH5Dataset(folder, prog['write_t'])
    sub.Barrier()
    if prog['restart_ckpt']:
        g3, c3, t3 = setupFromFile(folder, comm=sub, allocateSaveMemory=True)
        out['t_ckpt'] = int(t3)
        out['ckpt_equal'] = bool(g3.currentLayout == grid.currentLayout and
                                 cm.bits_equal(np.asarray(g3.getAllData()), np.asarray(grid.getAllData())))
        _ops(g3, sub, prog, out, 'vals_ckpt_restart')
        g3.writeH5Dataset(folder, prog['write_t'] + 1)
    blk = grid.getBlockFromDict({prog['fix_axis']: prog['fix_val']}, sub, prog['draw'])
    return out


def _prog_pipeline(sub, prog):
    from pygyro.diagnostics.diagnostic_collector import DiagnosticCollector
    f, constants = phys.setup_f(sub, prog['ckw'], prog['start'], allocateSaveMemory=True)
    pipe = phys.Pipeline(sub, f, constants)
    pipe.solve_qn()
    dc = DiagnosticCollector(sub, prog['save_step'], constants.dt, f, pipe.phi)
    f.setLayout('v_parallel')
    dc.collect(f, pipe.phi, 0)
    pipe.strang_step()
    f.setLayout('v_parallel')
    if prog['save_step'] > 1:
        dc.collect(f, pipe.phi, constants.dt)
    dc.reduce()
    out = dict(phi=phys.block(pipe.phi), f=phys.block(f))
    if sub.Get_rank() == 0:
        out['diag'] = [np.array(dc.getLine(i), copy=True) for i in range(prog['save_step'])]
    return out


def _run_prog(sub, prog):
    if prog['kind'] == 'idle':
        return dict(idle=True)
    if prog['kind'] == 'setup':
        return _prog_setup(sub, prog)
    return _prog_pipeline(sub, prog)


def _same(a, b, path=''):
    if isinstance(a, dict):
        if not isinstance(b, dict) or set(a) != set(b):
            return path + ': keys differ'
        for k in a:
            r = _same(a[k], b[k], path + '/' + str(k))
            if r:
                return r
        return None
    if isinstance(a, (list, tuple)):
        if not isinstance(b, (list, tuple)) or len(a) != len(b):
            return path + ': lengths differ'
        for i, (x, y) in enumerate(zip(a, b)):
            r = _same(x, y, '%s[%d]' % (path, i))
            if r:
                return r
        return None
    if isinstance(a, np.ndarray):
        if not (isinstance(b, np.ndarray) and a.shape == b.shape and
                np.array_equal(a, b, equal_nan=True if a.dtype.kind in 'fc' else False)):
            return path + ': arrays differ'
        return None
    if isinstance(a, float) and isinstance(b, float) and a != a and b != b:
        return None
    return None if a == b else '%s: %r != %r' % (path, a, b)


def run_split(ID, case, tape):
    M = Multi(ID, tape)
    P = case['P']
    colors = case['colors']
    progs = case['progs']
    sizes = [colors.count(0), colors.count(1)]
    together = {}
    alone = {}

    with Scratch() as d:
        cwd = os.getcwd()
        try:
            # --- the two simulations side by side in one world
            os.makedirs(os.path.join(d, 'together'))
            os.chdir(os.path.join(d, 'together'))

            def rank_fn(comm, rank):
                col = colors[rank]
                key = (P - rank) if case['key_reversed'] else rank
                sub = comm.Split(col, key)
                if case['dup']:
                    sub = sub.Dup()
                res = _run_prog(sub, progs[col])
                return dict(color=col, subrank=sub.Get_rank(), res=res)

            def post(w, results):
                for r in results:
                    together[(r['color'], r['subrank'])] = r['res']
                return None
            res = M.run(P, case['sched'], rank_fn, post)
            # --- each of them in a world of its own
            if res['status'] == 'ok':
                for col in (0, 1):
                    os.makedirs(os.path.join(d, 'alone%d' % col))
                    os.chdir(os.path.join(d, 'alone%d' % col))

                    def rank_fn1(comm, rank, col=col):
                        return dict(subrank=rank, res=_run_prog(comm, progs[col]))

                    def post1(w, results, col=col):
                        for r in results:
                            alone[(col, r['subrank'])] = r['res']
                        return None
                    sched1 = dict(case['sched'], priority_perm=None)
                    r1 = M.run(sizes[col], sched1, rank_fn1, post1)
                    if r1['status'] != 'ok':
                        break
        finally:
            os.chdir(cwd)

    def oracle():
        for k in sorted(alone):
            why = _same(alone[k], together.get(k))
            if why:
                raise OracleFail('not-isolated', dict(half=k[0], rank_in_half=k[1], programme=progs[k[0]]['kind'],
                                                      why=why))
        for col in (0, 1):
            p = progs[col]
            if p['kind'] != 'setup':
                continue
            r = together.get((col, p['draw']))
            for name in ('vals', 'vals_empty_restart', 'vals_ckpt_restart'):
                if r and name in r and any(v is None for v in r[name]):
                    raise OracleFail('wrong-reduction', dict(half=col, what=name, vals=r[name]))
            for sr in range(sizes[col]):
                r = together.get((col, sr)) or {}
                if r.get('ckpt_equal') is False:
                    raise OracleFail('restart-differs', dict(half=col, rank_in_half=sr))
                if 't_ckpt' in r and r['t_ckpt'] != p['write_t']:
                    raise OracleFail('restart-time', dict(half=col, got=r['t_ckpt'], want=p['write_t']))
        probes = {'kind_split': 1, 'split_%s_%s' % (progs[0]['kind'], progs[1]['kind']): 1}
        if colors != sorted(colors):
            probes['split_interleaved_or_reversed'] = 1
        for p in progs:
            if p['kind'] == 'setup' and p['restart_empty']:
                probes['split_restart_without_checkpoint'] = 1
            if p['kind'] == 'setup' and p['restart_ckpt']:
                probes['split_restart_from_checkpoint'] = 1
        return dict(nontrivial=True, probes=probes)
    return M.finish(oracle=oracle)


def shrink_split(case):
    for col in (0, 1):
        p = case['progs'][col]
        if p['kind'] != 'idle':
            q = [dict(x) for x in case['progs']]
            q[col]['kind'] = 'idle'
            if any(x['kind'] != 'idle' for x in q):
                yield dict(case, progs=q)
        if p['kind'] == 'setup':
            for fld in ('restart_empty', 'restart_ckpt'):
                if p[fld]:
                    q = [dict(x) for x in case['progs']]
                    q[col][fld] = False
                    yield dict(case, progs=q)
            if len(p['walk']) > 1:
                q = [dict(x) for x in case['progs']]
                q[col]['walk'] = p['walk'][:1]
                yield dict(case, progs=q)
    if case['dup']:
        yield dict(case, dup=False)
    if case['key_reversed']:
        yield dict(case, key_reversed=False)
