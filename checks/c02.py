"""C02 - block decomposition is an exact balanced partition; accessors agree
with it; arrays of exactly bufferSize suffice (DESIGN.md section 6)."""
import itertools

import numpy as np

import simworld
from harness import execute, OracleFail, Skip
from checks import common as cm
from checks import c01, c03

ID = 'C02'
HASHSEED_EVERY = {'quick': 1000, 'thorough': 5000}     # one case in so many is also run under other string-hash seeds (harness._run_hashseed_invariant)
BUDGET = {'quick': 20000, 'thorough': 1000000}
WALL = {'quick': 100, 'thorough': 1500}
CHUNK = 60
REQUIRED_PROBES = ['sweep_layouts', 'padded_block', 'extent_eq_procs', 'accessors_on_swapper_grid', 'kind_swapper', 'swapper_sets_in_another_order']
RULE = ("Every check: in 12% of the cases one or two bystander ranks share the simulated job and the code under test runs on world.Split(...); one case in HASHSEED_EVERY is re-run in fresh interpreters under other string-hash seeds and every rank's trace (collectives, data sent, result) must agree. "
        'Also: every accessor answer is asked for first and compared afterwards, getCoords iterators are held across layout changes, getBlockFromDict is called between two rounds of accessor checks and must leave the partition tables alone. '
        '15% of the cases: kind swapper = a LayoutSwapper with C03\'s random groupings listed in any order: bufferSize >= every layout, raw transposes and a Grid with arrays of exactly bufferSize elements along a walk, every accessor after every step; '
        'case 0 = complete sweep of Layout for all extents n in 1..40 and process counts p in 1..n '
        '(every rank coordinate); other cases = the C01 generator (shape, process grid, orderings, '
        'dtype, transposes) run on P simulated ranks: every rank reports its partition tables, a Grid '
        'is filled in one layout, moved to every other layout with buffers of exactly bufferSize, and '
        'every accessor is compared with the global array. non-trivial = accepted, P > 1 and at least '
        'one distributed extent not divisible by or equal to its process count; distinct = distinct '
        '(shape, grid, layouts) tuples')
ASSUMPTIONS = ['input domain: every process owns at least one point in every distributed dimension (p <= n)']


def gen(rng, tier, idx):
    if idx == 0:
        return dict(kind='sweep', P=1, nmax=70 if tier == 'quick' else 130, sched=simworld.default_sched(0))
    if rng.random() < 0.2:
        # the buffer-size and accessor clauses on a LayoutSwapper with random groupings listed in any order
        c = c03._gen_plain(rng, tier, idx)
        c['kind'] = 'swapper'
        return c
    c = c01.gen_base(rng, tier, idx)
    c['kind'] = 'world'
    # a walk through all layouts for the Grid accessor part
    names = [n for n, _ in c['layouts']]
    walk = list(names)
    rng.shuffle(walk)
    c['walk'] = walk
    c['swapper_grid'] = rng.random() < 0.25
    return c


# ---------------------------------------------------------------------------
def sweep(nmax):
    from pygyro.model.layout import Layout
    count = 0
    for n in range(1, nmax + 1):
        eta = [np.arange(n, dtype=float), np.arange(3, dtype=float)]
        for p in range(1, n + 1):
            tables = []
            ref_st = ref_len = None
            for k in range(p):
                for order in ([0, 1], [1, 0]):
                    # distributed dimension is always the first of the ordering
                    if order[0] != 0:
                        continue
                    l = Layout('x', [p], order, eta, [k])
                    count += 1
                    st = [int(x) for x in l.mpi_starts(0)]
                    ln = [int(x) for x in l.mpi_lengths(0)]
                    if ref_st is None:
                        ref_st, ref_len = st, ln
                    if st != ref_st or ln != ref_len:
                        raise OracleFail('partition', dict(n=n, p=p, k=k, why='tables differ between ranks'))
                    if int(l.starts[0]) != st[k] or int(l.ends[0]) != st[k] + ln[k]:
                        raise OracleFail('partition', dict(n=n, p=p, k=k, why='starts/ends disagree with tables',
                                                           starts=int(l.starts[0]), ends=int(l.ends[0]), table=(st[k], ln[k])))
                    if tuple(int(x) for x in l.shape) != (ln[k], 3) or int(l.size) != ln[k] * 3:
                        raise OracleFail('partition', dict(n=n, p=p, k=k, why='shape/size',
                                                           shape=[int(x) for x in l.shape], size=int(l.size)))
                    if int(l.max_block_shape[0]) != max(ln) or int(l.max_block_shape[1]) != 3 \
                            or int(l.max_block_size) != max(ln) * 3:
                        raise OracleFail('partition', dict(n=n, p=p, k=k, why='max_block_shape',
                                                           got=[int(x) for x in l.max_block_shape], want=max(ln)))
                    tables.append((int(l.starts[0]), int(l.ends[0])))
            cm.check_partition(n, tables, 'n=%d p=%d' % (n, p))
    return count


# ---------------------------------------------------------------------------
def collect_tables(manager, names, ndim):
    out = {}
    for n in names:
        l = manager.getLayout(n)
        out[n] = dict(
            dims_order=[int(x) for x in l.dims_order],
            inv=[int(x) for x in l.inv_dims_order],
            starts=[int(x) for x in l.starts], ends=[int(x) for x in l.ends],
            shape=[int(x) for x in l.shape], size=int(l.size),
            full=[int(x) for x in l.fullShape],
            max_shape=[int(x) for x in l.max_block_shape], max_size=int(l.max_block_size),
            mpi_starts=[[int(x) for x in l.mpi_starts(i)] for i in range(ndim)],
            mpi_lengths=[[int(x) for x in l.mpi_lengths(i)] for i in range(ndim)],
            nprocs=[int(x) for x in l.nprocs], ranks=[int(x) for x in l.ranks], name=l.name, ndims=int(l.ndims))
    return out


def check_tables(case, results):
    shape = case['shape']
    nprocs = case['nprocs']
    ndim = len(shape)
    for name, order in case['layouts']:
        t0 = results[0]['tables'][name]
        per_dim = [dict() for _ in range(ndim)]
        for r, res in enumerate(results):
            t = res['tables'][name]
            coords = res['coords']
            if t['mpi_starts'] != t0['mpi_starts'] or t['mpi_lengths'] != t0['mpi_lengths']:
                raise OracleFail('partition', dict(layout=name, rank=r, why='mpi_starts/mpi_lengths differ between ranks'))
            if t['dims_order'] != list(order) or t['name'] != name or t['ndims'] != ndim:
                raise OracleFail('accessor', dict(layout=name, rank=r, why='dims_order/name/ndims'))
            if [t['dims_order'][i] for i in t['inv']] != list(range(ndim)) and \
                    [t['inv'][d] for d in t['dims_order']] != list(range(ndim)):
                raise OracleFail('accessor', dict(layout=name, why='inv_dims_order is not the inverse'))
            if t['full'] != [shape[d] for d in order]:
                raise OracleFail('accessor', dict(layout=name, why='fullShape'))
            for i in range(ndim):
                c = coords[i] if i < len(nprocs) else 0
                p = nprocs[i] if i < len(nprocs) else 1
                if t['nprocs'][i] != p or t['ranks'][i] != c:
                    raise OracleFail('accessor', dict(layout=name, rank=r, why='nprocs/ranks', axis=i))
                if len(t['mpi_starts'][i]) != p or len(t['mpi_lengths'][i]) != p:
                    raise OracleFail('partition', dict(layout=name, axis=i, why='table length != process count'))
                if t['starts'][i] != t['mpi_starts'][i][c] or \
                        t['ends'][i] != t['mpi_starts'][i][c] + t['mpi_lengths'][i][c]:
                    raise OracleFail('partition', dict(layout=name, rank=r, axis=i,
                                                       why='starts/ends disagree with the tables at own coordinate'))
                if t['shape'][i] != t['ends'][i] - t['starts'][i]:
                    raise OracleFail('partition', dict(layout=name, rank=r, axis=i, why='shape != ends-starts'))
                per_dim[i].setdefault(c, set()).add((t['starts'][i], t['ends'][i]))
            if t['size'] != int(np.prod(t['shape'])):
                raise OracleFail('partition', dict(layout=name, rank=r, why='size != prod(shape)'))
        for i in range(ndim):
            p = nprocs[i] if i < len(nprocs) else 1
            tabs = []
            for c in range(p):
                s = per_dim[i].get(c)
                if s is None or len(s) != 1:
                    raise OracleFail('partition', dict(layout=name, axis=i, coord=c,
                                                       why='ranks with the same coordinate report different ranges'))
                tabs.append(next(iter(s)))
            lens = cm.check_partition(shape[order[i]], tabs, 'layout %s axis %d' % (name, i))
            for r, res in enumerate(results):
                t = res['tables'][name]
                if t['max_shape'][i] != max(lens):
                    raise OracleFail('partition', dict(layout=name, axis=i, rank=r, why='max_block_shape',
                                                       got=t['max_shape'][i], want=int(max(lens))))
        for r, res in enumerate(results):
            t = res['tables'][name]
            if t['max_size'] != int(np.prod(t['max_shape'])):
                raise OracleFail('partition', dict(layout=name, rank=r, why='max_block_size'))
            if res['bufferSize'] < t['size']:
                raise OracleFail('buffer-size', dict(layout=name, rank=r, bufferSize=res['bufferSize'], size=t['size']))
    c01.check_tiling(case, results)


def check_accessors(grid, G, eta, case, rank):
    """Every accessor of the grid against the global array (current layout)."""
    name = grid.currentLayout
    lay = grid.getLayout(name)
    order = list(lay.dims_order)
    ndim = len(order)
    f = grid.getAllData()
    if tuple(f.shape) != tuple(lay.shape):
        raise OracleFail('accessor', dict(layout=name, rank=rank, why='getAllData shape'))
    # every answer is asked for first and looked at afterwards: an answer must stay what it was when a
    # later call is made (a caller may hold several at once)
    held_idx = [grid.getGlobalIdxVals(i) for i in range(ndim)]
    held_cv = [grid.getCoordVals(i) for i in range(ndim)]
    held_gi = {}
    for idx in itertools.product(*[range(n) for n in f.shape]):
        held_gi[idx] = grid.getGlobalIndices(*idx)
    glob_idx = []
    for i in range(ndim):
        gi = list(held_idx[i])
        if len(gi) != f.shape[i]:
            raise OracleFail('accessor', dict(layout=name, rank=rank, axis=i, why='getGlobalIdxVals length',
                                              got=len(gi), want=int(f.shape[i])))
        glob_idx.append(gi)
        d = order[i]
        want_vals = eta[d][gi]
        cv = np.asarray(held_cv[i])
        if cv.shape != want_vals.shape or not (cv == want_vals).all():
            raise OracleFail('accessor', dict(layout=name, rank=rank, axis=i, why='getCoordVals'))
        en = list(grid.getCoords(i))
        if [k for k, _ in en] != list(range(len(gi))) or \
                not all(v == w for (_, v), w in zip(en, want_vals)):
            raise OracleFail('accessor', dict(layout=name, rank=rank, axis=i, why='getCoords'))
    for d in range(ndim):
        i = order.index(d)
        en = list(grid.getEta(d))
        want_vals = eta[d][glob_idx[i]]
        if [k for k, _ in en] != list(range(len(want_vals))) or \
                not all(v == w for (_, v), w in zip(en, want_vals)):
            raise OracleFail('accessor', dict(layout=name, rank=rank, dim=d, why='getEta'))
    # data at every local index equals the global array at getGlobalIndices(...)
    sub = G[np.ix_(*[glob_idx[order.index(d)] for d in range(ndim)])].transpose(order)
    if not cm.bits_equal(f, sub):
        raise OracleFail('accessor', dict(layout=name, rank=rank, why='data != G[getGlobalIdxVals]',
                                          diff=cm.first_diff(f, sub)))
    for idx in itertools.product(*[range(n) for n in f.shape]):
        g = held_gi[idx]
        if len(g) != ndim or any(g[order[i]] != glob_idx[i][idx[i]] for i in range(ndim)):
            raise OracleFail('accessor', dict(layout=name, rank=rank, why='getGlobalIndices',
                                              local=list(idx), got=[int(x) for x in g]))
        if f[idx] != G[tuple(g)]:
            raise OracleFail('accessor', dict(layout=name, rank=rank, why='f[idx] != G[getGlobalIndices(idx)]',
                                              local=list(idx)))
    if list(grid.nGlobalCoords) != list(G.shape):
        raise OracleFail('accessor', dict(why='nGlobalCoords'))


def run_swapper(case, tape):
    """bufferSize suffices for every layout and every transpose of a swapper (arrays of exactly that size),
    and a Grid on it answers every accessor correctly in every layout of every group."""
    P = case['P']
    shape = case['shape']
    dt = cm.np_dtype(case['dtype'])

    def rank_fn(comm, rank):
        from pygyro.model.grid import Grid
        sw = c03.build_swapper(comm, case)
        bsize = int(sw.bufferSize)
        names = [n for g in case['groups'] for n, _ in g]
        for n in names:
            lay = sw.getLayout(n)
            if bsize < int(lay.size):
                raise OracleFail('buffer-size', dict(layout=n, rank=rank, bufferSize=bsize, size=int(lay.size)))
        eta = [3000.0 * (d + 1) + np.arange(n, dtype=float) for d, n in enumerate(shape)]
        G = cm.global_array(shape, case['dtype'], salt=5)
        # raw transposes with arrays of exactly bufferSize elements
        cur = case['start']
        a = cm.poison(np.empty(bsize, dtype=dt))
        b = cm.poison(np.empty(bsize, dtype=dt))
        lay = sw.getLayout(cur)
        a[:lay.size] = cm.local(G, lay).ravel()
        for step, (nxt, use_buf) in enumerate(case['walk']):
            buf = cm.poison(np.empty(bsize, dtype=dt)) if use_buf else None
            sw.transpose(a, b, cur, nxt, buf)
            ld = sw.getLayout(nxt)
            if not cm.bits_equal(b[:ld.size].reshape(ld.shape), cm.local(G, ld)):
                raise OracleFail('buffer-size', dict(why='transpose with exactly bufferSize elements gave wrong data',
                                                     step=step, src=cur, dst=nxt, rank=rank))
            a, b = b, a
            cur = nxt
        # a Grid (its own arrays have exactly bufferSize elements) walked through the same layouts
        grid = Grid(eta, [], sw, case['start'], comm, dtype=dt)
        grid.getAllData()[:] = cm.local(G, sw.getLayout(case['start']))
        check_accessors(grid, G, eta, case, rank)
        for nxt, _ in case['walk']:
            grid.setLayout(nxt)
            check_accessors(grid, G, eta, case, rank)
        return True

    def post(w, results):
        probes = {'kind_swapper': 1}
        if case.get('order_shuffled'):
            probes['swapper_sets_in_another_order'] = 1
        return dict(nontrivial=P > 1, probes=probes)
    return execute(ID, P, case['sched'], tape, rank_fn, post)


def run(case, tape=None):
    if case.get('kind') == 'sweep':
        def rank_fn(comm, rank):
            return sweep(case['nmax'])

        def post(w, results):
            return dict(nontrivial=True, probes={'sweep_layouts': results[0]})
        return execute(ID, 1, case['sched'], tape, rank_fn, post)

    if case.get('kind') == 'swapper':
        return run_swapper(case, tape)

    P = case['P']
    names = [n for n, _ in case['layouts']]
    shape = case['shape']
    ndim = len(shape)

    def rank_fn(comm, rank):
        from pygyro.model.grid import Grid
        w = simworld.current()[0]
        h = c01.build_handler(comm, case)
        tables = collect_tables(h, names, ndim)
        coords = [int(x) for x in h.mpiCoords]
        # (e) buffers of exactly bufferSize through every transpose
        c01.do_transposes(h, case, w, rank, exact_buffers=True)
        # (d) accessors, on a Grid walked through all layouts
        eta = [1000.0 * (d + 1) + np.arange(n, dtype=float) for d, n in enumerate(shape)]
        G = cm.global_array(shape, case['dtype'], salt=99)
        walk = case['walk']
        grid = Grid(eta, [], h, walk[0], comm, dtype=cm.np_dtype(case['dtype']))
        if grid.getAllData().size != h.getLayout(walk[0]).size:
            raise OracleFail('accessor', dict(why='initial view size'))
        grid.getAllData()[:] = cm.local(G, h.getLayout(walk[0]))
        check_accessors(grid, G, eta, case, rank)
        if case['dtype'] != 'int64' and case.get('figblock', True):
            # the plotting helpers read the partition; they must leave it as it was (every layout object is shared
            # by all Grids on the manager)
            fa = (case['seed'] if 'seed' in case else 0) % ndim
            grid.getBlockFromDict({fa: int(shape[fa] // 2)}, comm, (case.get('seed', 0) // 7) % comm.Get_size())
            if collect_tables(h, names, ndim) != tables:
                raise OracleFail('partition', dict(rank=rank, why='the partition tables changed after getBlockFromDict'))
            check_accessors(grid, G, eta, case, rank)
        for nxt in walk[1:]:
            # an answer asked for in one layout and read after the layout changed still belongs to the layout it
            # was asked in
            lay_was = grid.getLayout(grid.currentLayout)
            held = [grid.getCoords(i) for i in range(ndim)]
            want_was = [[float(x) for x in eta[lay_was.dims_order[i]][int(lay_was.starts[i]):int(lay_was.ends[i])]]
                        for i in range(ndim)]
            grid.setLayout(nxt)
            for i in range(ndim):
                got = [float(v) for _, v in held[i]]
                if got != want_was[i]:
                    raise OracleFail('accessor', dict(rank=rank, axis=i, why='getCoords asked before a layout change answered for the new layout',
                                                      got=got[:4], want=want_was[i][:4]))
            check_accessors(grid, G, eta, case, rank)
        if len(walk) > 1:
            # the accessors must also follow the layout through save / layout change / restore
            g3 = Grid(eta, [], h, walk[0], comm, dtype=cm.np_dtype(case['dtype']), allocateSaveMemory=True)
            g3.getAllData()[:] = cm.local(G, h.getLayout(walk[0]))
            g3.saveGridValues()
            g3.setLayout(walk[1])
            check_accessors(g3, G, eta, case, rank)
            g3.restoreGridValues()
            check_accessors(g3, G, eta, case, rank)
            g3.setLayout(walk[-1])
            check_accessors(g3, G, eta, case, rank)
        if case.get('swapper_grid') and len(case['nprocs']) == 2 and ndim >= 3:
            # the same accessors on a Grid whose layouts live in several differently distributed groups
            from pygyro.model.layout import LayoutSwapper
            from checks import c03
            groups, pattern = c03.DRIVER[0]
            g3 = list(case['nprocs'])
            shape3 = [max(max(g3), n) for n in shape[:3]]
            eta3 = [2000.0 * (d + 1) + np.arange(n, dtype=float) for d, n in enumerate(shape3)]
            sw = LayoutSwapper(comm, [dict(x) for x in groups], c03._expand(pattern, g3), eta3, 'v_parallel_2d')
            G3 = cm.global_array(shape3, 'float64', salt=7)
            g2 = Grid(eta3, [], sw, 'v_parallel_2d', comm)
            g2.getAllData()[:] = cm.local(G3, sw.getLayout('v_parallel_2d'))
            check_accessors(g2, G3, eta3, case, rank)
            for nxt in ('mode_solve', 'v_parallel_1d', 'poloidal', 'v_parallel_2d'):
                g2.setLayout(nxt)
                check_accessors(g2, G3, eta3, case, rank)
            if rank == 0:
                w.probe('accessors_on_swapper_grid')
        return dict(tables=tables, coords=coords, bufferSize=int(h.bufferSize))

    def post(w, results):
        check_tables(case, results)
        nontriv = False
        probes = {}
        for _, o in case['layouts']:
            for j, p in enumerate(case['nprocs']):
                if p > 1 and (shape[o[j]] % p or shape[o[j]] == p):
                    nontriv = True
                if p > 1 and shape[o[j]] % p:
                    probes['padded_block'] = 1
                if p > 1 and shape[o[j]] == p:
                    probes['extent_eq_procs'] = 1
        return dict(nontrivial=nontriv and P > 1, probes=probes)

    return execute(ID, P, case['sched'], tape, rank_fn, post)


def shrink(case):
    if case.get('kind') == 'sweep':
        return
    if case.get('kind') == 'swapper':
        for c in c03.shrink(case):
            yield dict(c, kind='swapper')
        return
    for c in c01.shrink(case):
        c = dict(c)
        names = [n for n, _ in c['layouts']]
        c['walk'] = [n for n in case['walk'] if n in names] or names[:1]
        yield c
    if len(case['ops']) > 0:
        c = dict(case)
        c['ops'] = []
        yield c
    if len(case['walk']) > 1:
        for i in range(len(case['walk'])):
            c = dict(case)
            c['walk'] = case['walk'][:i] + case['walk'][i + 1:]
            yield c


_gen_plain = gen


def gen(rng, tier, idx):
    case = _gen_plain(rng, tier, idx)
    if case.get('sched') is not None and 'P' in case:
        cm.maybe_bystanders(rng, case['sched'], case['P'])
    return case
