"""Helpers for the physics-level checks (C05, C11, C15-C18): constants, forced
process grids, distributed set-up of the driver's objects, assembly of global
fields from per-rank blocks."""
import contextlib
import math

import numpy as np

import simworld
from harness import OracleFail, Skip
from checks import common as cm

STD_LAYOUTS = {'flux_surface': [0, 3, 1, 2], 'v_parallel': [0, 2, 1, 3], 'poloidal': [3, 2, 1, 0]}


# ---------------------------------------------------------------------------
# constants
# ---------------------------------------------------------------------------
def gen_constants(rng, amplified=True, npts=None):
    """Keyword arguments for setupCylindricalGrid.  `amplified`: per-slice
    parameters differ strongly between slices (small R0 so that r*iota/R0 = O(1),
    large eps) so that wiring errors are O(1e-3..1) rather than O(1e-9)."""
    if npts is None:
        npts = [rng.randint(5, 8), rng.randint(5, 8), rng.randint(7, 9), rng.randint(5, 8)]
    kw = dict(npts=[int(x) for x in npts])
    if amplified:
        R0 = rng.choice([4.0, 7.5, 12.0, 30.0])
        kw['R0'] = R0
        kw['zMax'] = R0 * 2 * math.pi
        kw['eps'] = rng.choice([1e-3, 1e-2, 1e-1])
        kw['iotaVal'] = rng.choice([0.0, 0.8, 0.8, 1.7, -0.6])
        kw['m'] = rng.randint(1, 4)
        kw['n'] = rng.choice([-2, -1, 1, 2, 3])
        kw['kN0'] = rng.choice([0.055, 0.2])
        kw['kTi'] = rng.choice([0.27586, 0.1])
        # nothing about the domain or the profiles is special: vary what the shipped set-ups keep fixed
        if rng.random() < 0.5:
            kw['rMin'] = rng.choice([0.1, 0.5, 1.5])
            kw['rMax'] = rng.choice([14.5, 9.0])
            if rng.random() < 0.5:
                # the peak of the profiles given explicitly, not at the middle of the radial domain
                kw['rp'] = round(kw['rMin'] + (kw['rMax'] - kw['rMin']) * rng.choice([0.3, 0.62]), 4)
        if rng.random() < 0.4:
            zmin = rng.choice([-3.0, 10.0])
            kw['zMin'] = zmin
            kw['zMax'] = zmin + R0 * 2 * math.pi
        if rng.random() < 0.4:
            kw['B0'] = rng.choice([0.7, 2.0])
        if rng.random() < 0.4:
            kw['CTi'] = rng.choice([1.5, 0.8])
            kw['CTe'] = rng.choice([1.0, 0.8])
            kw['kTe'] = rng.choice([0.27586, 0.2])
            kw['deltaRTi'] = rng.choice([1.45, 2.0])
            kw['deltaRTe'] = rng.choice([1.45, 1.0])
    else:
        kw['iotaVal'] = rng.choice([0.0, 0.8])
        kw['m'] = rng.randint(1, 4)
    kw['dt'] = rng.choice([1, 2, 2, 3])
    return kw


def admissible_grids(npts, maxP=12, include_serial=True):
    """All 2-D process grids (p1,p2) on which every standard layout and the
    driver's potential layouts give each rank >= 1 point."""
    nr, nq, nz, nv = npts
    out = []
    for p1 in range(1, min(nr, nv, nq) + 1):
        for p2 in range(1, min(nz, nv) + 1):
            if p1 * p2 <= maxP:
                out.append([p1, p2])
    if not include_serial:
        out = [g for g in out if g != [1, 1]]
    return out


def pick_grids(rng, npts, k, maxP=12):
    """k distinct non-serial process grids, weighted towards (1,n), (n,1), square
    and non-dividing ones but reaching every admissible grid."""
    grids = admissible_grids(npts, maxP, include_serial=False)
    out = []
    while grids and len(out) < k:
        wts = []
        for g in grids:
            w = 1.0
            if 1 in g:
                w += 1.0
            if g[0] == g[1]:
                w += 1.0
            if npts[0] % g[0] or npts[2] % g[1] or npts[3] % g[1] or npts[3] % g[0]:
                w += 1.0
            wts.append(w)
        x = rng.random() * sum(wts)
        acc = 0.0
        for g, w in zip(grids, wts):
            acc += w
            if x <= acc:
                out.append(g)
                grids.remove(g)
                break
        else:
            out.append(grids.pop())
    return out


@contextlib.contextmanager
def force_procs(table):
    """Force the 2-D process grid that setupCylindricalGrid / setupFromFile use:
    table maps communicator size -> (p1, p2); other sizes use the code's choice."""
    import pygyro.initialisation.setups as S
    import pygyro.model.process_grid as PG
    orig_s = getattr(S, 'compute_2d_process_grid', None)
    orig_p = getattr(PG, 'compute_2d_process_grid', None)
    orig = orig_p or orig_s

    def forced(npts, size):
        g = table.get(int(size))
        if g is None:
            return orig(npts, size)
        return (int(g[0]), int(g[1]))
    if orig_s is not None:
        S.compute_2d_process_grid = forced
    if orig_p is not None:
        PG.compute_2d_process_grid = forced
    try:
        yield
    finally:
        if orig_s is not None:
            S.compute_2d_process_grid = orig_s
        if orig_p is not None:
            PG.compute_2d_process_grid = orig_p


def check_forced(f, g):
    """The process grid the harness asked for must be the one in use; if the seam is no longer
    reached this is the harness's problem (exit 2), not a property violation."""
    from harness import HarnessProblem
    lay = f.getLayout('v_parallel')
    got = [int(x) for x in lay.nprocs[:2]]
    if got != [int(g[0]), int(g[1])]:
        raise HarnessProblem('forced process grid %r not used (code chose %r): the seam '
                             'compute_2d_process_grid is no longer reached' % (list(g), got))


# ---------------------------------------------------------------------------
# blocks and assembly
# ---------------------------------------------------------------------------
def block(grid, layout_name=None):
    lay = grid.getLayout(layout_name or grid.currentLayout)
    return ([int(x) for x in lay.dims_order], [int(x) for x in lay.starts], [int(x) for x in lay.ends],
            np.array(grid.getAllData(), copy=True))


def raw_block(layout, data):
    return ([int(x) for x in layout.dims_order], [int(x) for x in layout.starts], [int(x) for x in layout.ends],
            np.array(data, copy=True))


def assemble(blocks, shape, what='field'):
    """Global array (global dimension order) from per-rank blocks.  Replicated
    blocks must agree bit for bit; every element must be covered."""
    blocks = [b for b in blocks if b is not None and b[3].size > 0]
    dtype = blocks[0][3].dtype
    G = np.zeros(shape, dtype=dtype)
    cover = np.zeros(shape, dtype=np.int32)
    for order, st, en, data in blocks:
        sl = tuple(slice(s, e) for s, e in zip(st, en))
        view = G.transpose(order)[sl]
        cv = cover.transpose(order)[sl]
        if view.shape != data.shape:
            raise OracleFail('assemble', dict(what=what, why='block shape', got=list(data.shape), want=list(view.shape)))
        seen = cv > 0
        if seen.any():
            a = view[seen]
            b = data[seen]
            if a.tobytes() != b.tobytes():
                raise OracleFail('replicas-differ', dict(what=what, maxdiff=float(np.nanmax(np.abs(a - b)))))
        view[...] = data
        cv += 1
    if (cover == 0).any():
        raise OracleFail('assemble', dict(what=what, why='elements not covered by any rank',
                                          missing=int((cover == 0).sum())))
    return G


def relerr(a, b):
    scale = float(np.max(np.abs(b))) if b.size else 0.0
    if not np.all(np.isfinite(a)):
        return float('inf')
    d = float(np.max(np.abs(a - b))) if b.size else 0.0
    return d / scale if scale > 0 else d


# ---------------------------------------------------------------------------
# the driver's objects (mirrors fullSimulation.main set-up, lines 110-160)
# ---------------------------------------------------------------------------
class Pipeline:
    def __init__(self, comm, f, constants, chi=0, save_step=1, adiabatic=True, edge='fEq', B=None, opts=None):
        from pygyro.model.layout import LayoutSwapper, getLayoutHandler
        from pygyro.model.grid import Grid
        from pygyro.poisson.poisson_solver import DensityFinder, QuasiNeutralitySolver
        from pygyro.advection.advection import (FluxSurfaceAdvection, VParallelAdvection,
                                                PoloidalAdvection, ParallelGradient)
        self.comm = comm
        self.f = f
        self.constants = constants
        self.halfStep = constants.dt * 0.5
        self.fullStep = constants.dt
        # get2DSpline()[0] is the theta spline in each of the three standard layouts
        opts = opts or {}      # optional arguments of the operators that the driver leaves at their defaults
        fkw = {k: opts[k] for k in ('zDegree',) if k in opts}
        pkw = {k: opts[k] for k in ('nulEdge', 'explicitTrap', 'tol') if k in opts}
        gkw = {k: opts[k] for k in ('order',) if k in opts}
        self.fluxAdv = FluxSurfaceAdvection(f.eta_grid, f.get2DSpline(), f.getLayout('flux_surface'),
                                            self.halfStep, constants, **fkw)
        self.vParAdv = VParallelAdvection(f.eta_grid, f.getSpline(3), constants, edge=edge)
        self.polAdv = PoloidalAdvection(f.eta_grid, f.getSpline(slice(1, None, -1)), constants, **pkw)
        lay = f.getLayout('v_parallel')
        self.parGradVals = np.empty([lay.shape[0], constants.npts[2], constants.npts[1]])
        layout_poisson = {'v_parallel_2d': [0, 2, 1], 'mode_solve': [1, 2, 0]}
        layout_vpar = {'v_parallel_1d': [0, 2, 1]}
        layout_poloidal = {'poloidal': [2, 1, 0]}
        nprocs = f.getLayout('v_parallel').nprocs[:2]
        self.nprocs = [int(x) for x in nprocs]
        self.remapperPhi = LayoutSwapper(comm, [layout_poisson, layout_vpar, layout_poloidal],
                                         [nprocs, nprocs[0], nprocs[1]], f.eta_grid[:3], 'mode_solve')
        self.remapperRho = getLayoutHandler(comm, layout_poisson, nprocs, f.eta_grid[:3])
        self.phi = Grid(f.eta_grid[:3], f.getSpline(slice(0, 3)), self.remapperPhi, 'mode_solve', comm,
                        dtype=np.complex128)
        self.rho = Grid(f.eta_grid[:3], f.getSpline(slice(0, 3)), self.remapperRho, 'v_parallel_2d', comm,
                        dtype=np.complex128)
        self.density = DensityFinder(int(opts.get('density_degree', 6)), f.getSpline(3), f.eta_grid, constants)
        bkw = {} if B is None else dict(B=float(B))       # the optional magnetic-field factor (default 1)
        if opts.get('Te_user') is not None:
            bkw['Te'] = user_Te(opts['Te_user'])      # the optional electron-temperature profile (a callable)
        if adiabatic:
            self.QN = QuasiNeutralitySolver(f.eta_grid[:3], 7, f.getSpline(0), constants, chi=chi, **bkw)
        else:
            self.QN = QuasiNeutralitySolver(f.eta_grid[:3], 7, f.getSpline(0), constants,
                                            adiabaticElectrons=False, **bkw)
        self.parGrad = ParallelGradient(f.getSpline(1), f.eta_grid,
                                        self.remapperPhi.getLayout('v_parallel_1d'), constants, **gkw)

    def solve_qn(self):
        """density -> modes -> per-mode solve -> potential (driver lines 176-189)"""
        f, rho, phi, QN = self.f, self.rho, self.phi, self.QN
        f.setLayout('v_parallel')
        self.density.getPerturbedRho(f, rho)
        QN.getModes(rho)
        rho.setLayout('mode_solve')
        phi.setLayout('mode_solve')
        QN.solveEquation(phi, rho)
        phi.setLayout('v_parallel_2d')
        rho.setLayout('v_parallel_2d')
        QN.findPotential(phi)

    def strang_step(self):
        """One iteration of the driver's loop body (fullSimulation.py lines 228-273)."""
        f, phi = self.f, self.phi
        fluxAdv, vParAdv, polAdv = self.fluxAdv, self.vParAdv, self.polAdv
        parGrad, parGradVals = self.parGrad, self.parGradVals
        halfStep, fullStep = self.halfStep, self.fullStep
        f.setLayout('flux_surface')
        f.saveGridValues()
        fluxAdv.gridStep(f)
        f.setLayout('v_parallel')
        phi.setLayout('v_parallel_1d')
        vParAdv.gridStep(f, phi, parGrad, parGradVals, halfStep)
        f.setLayout('poloidal')
        phi.setLayout('poloidal')
        polAdv.gridStep(f, phi, halfStep)
        self.solve_qn()
        f.restoreGridValues()
        fluxAdv.gridStep(f)
        f.setLayout('v_parallel')
        phi.setLayout('v_parallel_1d')
        vParAdv.gridStep(f, phi, parGrad, parGradVals, halfStep)
        f.setLayout('poloidal')
        phi.setLayout('poloidal')
        polAdv.gridStep(f, phi, fullStep)
        f.setLayout('v_parallel')
        vParAdv.gridStepKeepGradient(f, parGradVals, halfStep)
        f.setLayout('flux_surface')
        fluxAdv.gridStep(f)
        self.solve_qn()


def setup_f(comm, ckw, layout, grid=None, **extra):
    """setupCylindricalGrid with an optional forced process grid."""
    from pygyro.initialisation.setups import setupCylindricalGrid
    kw = dict(ckw)
    kw.update(extra)
    try:
        f, constants, t = setupCylindricalGrid(layout=layout, comm=comm, **kw)
    except RuntimeError as e:
        if cm.refusal(e):
            raise Skip(str(e))
        raise
    return f, constants


def smooth_noise(shape, seed, amp=0.1):
    """A reproducible global perturbation field: smooth part + small noise."""
    rs = np.random.RandomState(seed % (2 ** 31))
    ax = [np.linspace(0.0, 1.0, n) for n in shape]
    g = np.ones(shape)
    out = np.zeros(shape)
    for k in range(3):
        term = np.ones(shape)
        for d, a in enumerate(ax):
            ph = rs.uniform(0, 2 * np.pi)
            fr = rs.randint(1, 3)
            sh = [1] * len(shape)
            sh[d] = len(a)
            term = term * np.cos(2 * np.pi * fr * a + ph).reshape(sh)
        out += term * rs.uniform(0.3, 1.0)
    out += 0.05 * rs.standard_normal(shape)
    return amp * out


def gen_operator_options(rng, npts):
    """Optional constructor arguments of the operators (the driver uses the defaults): finite-difference order of
    the parallel gradient, Lagrange degree of the flux-surface step along z, boundary and time-integration
    variants of the poloidal step, quadrature degree of the density integral."""
    o = {}
    if rng.random() < 0.5:
        o['order'] = rng.choice([x for x in (2, 4, 6, 8) if x + 1 <= npts[2]])
    if rng.random() < 0.4:
        o['zDegree'] = rng.choice([x for x in (1, 3, 5, 7) if x + 1 <= npts[2]])
    if rng.random() < 0.3:
        o['nulEdge'] = True
    # (explicitTrap=False - an implicit trapezoidal rule solved by a fixed-point iteration without an iteration cap -
    # is left out: with the amplified potentials used here the iteration need not converge, and no property
    # promises that it does)
    if rng.random() < 0.3:
        o['density_degree'] = rng.choice([7, 8, 10])
    return o


def user_Te(spec):
    """An electron temperature profile given by the caller instead of the one the constants describe:
    spec = (level, slope, centre)."""
    a, b, c0 = spec
    return lambda r: a * (1.0 + b * np.tanh((np.asarray(r) - c0) / 3.0))
