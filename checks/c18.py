"""C18 - checkpoints round-trip exactly and a restarted run continues the original
one (DESIGN.md section 6).  Real HDF5 files in a per-case scratch directory,
parallel HDF5 emulated by sim/seams.py, wall clock simulated."""
import json
import os
import sys

import numpy as np

import simworld
import seams
from harness import Multi, OracleFail, Skip, Scratch
from checks import common as cm
from checks import phys, c01

ID = 'C18'
HASHSEED_EVERY = {'quick': 40, 'thorough': 200}     # one case in so many is also run under other string-hash seeds (harness._run_hashseed_invariant)
BUDGET = {'quick': 400, 'thorough': 40000}
WALL = {'quick': 170, 'thorough': 3000}
CHUNK = 4
CASE_TIMEOUT = 900
REACH_N = 40
DET_K = 3
SELFTEST = {'quick': 12, 'thorough': 96}
REQUIRED_PROBES = ['kind_roundtrip', 'kind_restart', 'kind_params', 'kind_driver', 'resumed_from_checkpoint', 'budget_stopped_early', 'leg1_aborted', 'first_restart_iteration_is_save_step', 'restart_on_different_grid', 'time_7plus_digits', 'save_interval_1', 'explicit_rp', 'driver_without_folder_argument', 'kind_twojobs']
RULE = ("Every check: in 12% of the cases one or two bystander ranks share the simulated job and the code under test runs on world.Split(...); one case in HASHSEED_EVERY is re-run in fresh interpreters under other string-hash seeds and every rank's trace (collectives, data sent, result) must agree. "
        'Also: writes and loads reached through save / layout change / restore (30%), checkpoints rewritten under the same name (20%), name conventions with an underscore, file time stamps from the simulated clock of the last closing rank, a scheduling point before the close of every written file, velocity / r / z domains that are not the default ones through restarts, the coordinates of the restarted grid compared with those of the writing run. '
        'case kinds (swarm-weighted): twojobs = the world split into two jobs that set up, call setupSave without a folder name in the same working directory at the same time, write a checkpoint and restart from their folder (a job refused loudly because it lost the race for a name is skipped; otherwise each must find its own parameters and field); roundtrip = a Grid on random orderings/shape/dtype written with '
        'writeH5Dataset on process grid P1 (several times, layouts and name conventions) and loaded with '
        'loadFromFile on a different process grid P2, file content checked with serial h5py; restart = '
        'setupCylindricalGrid + setupSave + checkpoints at integer times of different digit counts '
        'written in any order on P1, then setupFromFile / loadFromFile on P2 with and without an explicit '
        'time; params = initParams.json written by setupSave, rewritten with keys in seeded order and '
        'symbolic expressions, parsed by get_constants on every rank; driver = fullSimulation.main() '
        'unsplit for N+M steps versus N steps, stop (tEnd / simulated-clock budget with skewed, drifting, '
        'jumping per-rank clocks / whole-job abort between checkpoints), restart for the rest, for save '
        'intervals 1..6 and changed or unchanged process grids.  non-trivial = some World with P > 1, or '
        'for driver cases a restart that resumed from a checkpoint; distinct = distinct case tuples')
ASSUMPTIONS = ['integer dt and checkpoint times (the driver indexes arrays with t // dt)',
               'a fail-stop of the job is injected only while no checkpoint file is open; torn HDF5 files are out of scope',
               'parameter files use the expression grammar of the shipped test set-ups (names, numbers, + - * / parentheses)']

TIMES = [0, 2, 7, 10, 99, 100, 1000, 99998, 100000, 999998, 999999, 1000000, 1000002, 12345678]


def gen(rng, tier, idx):
    r = rng.random()
    if r < 0.28:
        return gen_roundtrip(rng)
    if r < 0.52:
        return gen_restart(rng)
    if r < 0.66:
        return gen_params(rng)
    if r < 0.70:
        return gen_twojobs(rng)
    return gen_driver(rng, tier)


# ---------------------------------------------------------------------------
# (a) round trip of arbitrary grids across decompositions
# ---------------------------------------------------------------------------
def gen_roundtrip(rng):
    c = c01.gen_base(rng, 'quick', 0)
    if c['dtype'] == 'int64':
        c['dtype'] = 'float64'
    ndim = len(c['shape'])
    names = [n for n, _ in c['layouts']]
    orders = [o for _, o in c['layouts']]
    # a second process grid on which every layout still gives each rank >= 1 point
    for _ in range(50):
        np2 = cm.gen_nprocs(rng, ndim)
        if len(np2) <= ndim and all(c['shape'][o[j]] >= p for o in orders for j, p in enumerate(np2)):
            break
    else:
        np2 = [1]
    writes = []
    times = rng.sample(TIMES, rng.randint(1, 4))
    if rng.random() < 0.2:
        times.append(times[0])        # the same checkpoint written again: the later content must be the one on disk
    for t in times:
        wr = dict(layout=rng.choice(names), t=t, name=rng.choice(['grid', 'grid', 'phi', 'species_1', 'rho_2d']))
        if len(names) > 1 and rng.random() < 0.3:
            # the layout is reached through save / layout change / restore rather than through setLayout
            wr['via_restore'] = rng.choice([n for n in names if n != wr['layout']])
        writes.append(wr)
    c.update(kind='roundtrip', ops=[], nprocs2=np2, P2=int(np.prod(np2)), writes=writes)
    c['P'] = max(c['P'], c['P2'])
    c['P1'] = int(np.prod(c['nprocs']))
    return c


def run_roundtrip(case, tape):
    M = Multi(ID, tape)
    shape = case['shape']
    dt = cm.np_dtype(case['dtype'])
    with Scratch() as folder:
        def writer(comm, rank):
            from pygyro.model.grid import Grid
            h = c01.build_handler(comm, case)
            eta = [np.arange(n, dtype=float) for n in shape]
            anyvia = any(wr.get('via_restore') for wr in case['writes'])
            grid = Grid(eta, [], h, case['writes'][0]['layout'], comm, dtype=dt, allocateSaveMemory=anyvia)
            for i, wr in enumerate(case['writes']):
                if grid.currentLayout != wr['layout']:
                    grid.setLayout(wr['layout'])
                if wr.get('via_restore'):
                    grid.saveGridValues()
                    grid.setLayout(wr['via_restore'])
                    grid.restoreGridValues()
                G = cm.global_array(shape, case['dtype'], salt=i)
                grid.getAllData()[:] = cm.local(G, h.getLayout(wr['layout']))
                grid.writeH5Dataset(folder, wr['t'], wr['name'])
            return True

        def check_files(w, results):
            lay = dict((n, o) for n, o in case['layouts'])
            final = {}
            for i, wr in enumerate(case['writes']):
                final[(wr['name'], wr['t'])] = i        # a later write to the same file replaces it
            for (nm, tt), i in sorted(final.items()):
                wr = case['writes'][i]
                fn = _ckpt_files(folder, wr['name']).get(wr['t'])
                if fn is None:
                    raise OracleFail('checkpoint-missing', dict(name=wr['name'], t=wr['t']))
                d, order = _read_h5(fn)
                G = cm.global_array(shape, case['dtype'], salt=i)
                if order is None:
                    order = list(lay[wr['layout']])      # recorded some other way: checked through the load
                if order != list(lay[wr['layout']]):
                    raise OracleFail('checkpoint-layout-attr', dict(file=os.path.basename(fn), got=order,
                                                                    want=list(lay[wr['layout']])))
                if not cm.bits_equal(d, np.ascontiguousarray(G.transpose(order))):
                    raise OracleFail('checkpoint-content', dict(file=os.path.basename(fn),
                                                                diff=cm.first_diff(d, G.transpose(order))))
            return None
        res = M.run(case['P1'], case['sched'], writer, check_files)
        if res['status'] == 'ok':
            case2 = dict(case, nprocs=case['nprocs2'], P=case['P2'])
            # the latest file per name convention, by time
            latest = {}
            for i, wr in enumerate(case['writes']):
                if wr['name'] not in latest or wr['t'] > case['writes'][latest[wr['name']]]['t']:
                    latest[wr['name']] = i

            def reader(comm, rank):
                from pygyro.model.grid import Grid
                h = c01.build_handler(comm, case2)
                eta = [np.arange(n, dtype=float) for n in shape]
                # later writes with the same (name, t) overwrite earlier ones
                final = {}
                for i, wr in enumerate(case['writes']):
                    final[(wr['name'], wr['t'])] = i
                for (name, t), i in sorted(final.items()):
                    wr = case['writes'][i]
                    grid = Grid(eta, [], h, wr['layout'], comm, dtype=dt, allocateSaveMemory=bool(wr.get('via_restore')))
                    if wr.get('via_restore'):
                        grid.saveGridValues()
                        grid.setLayout(wr['via_restore'])
                        grid.restoreGridValues()
                    cm.poison(grid.getAllData())
                    grid.loadFromFile(folder, t, name)
                    G = cm.global_array(shape, case['dtype'], salt=i)
                    want = cm.local(G, h.getLayout(wr['layout']))
                    if not cm.bits_equal(grid.getAllData(), want):
                        raise OracleFail('roundtrip', dict(write=wr, rank=rank,
                                                           diff=cm.first_diff(grid.getAllData(), want)))
                for name in sorted({wr['name'] for wr in case['writes']}):
                    cand = [(wr['t'], i) for (nm, t), i in final.items() for wr in [case['writes'][i]] if nm == name]
                    tmax, i = max(cand)
                    wr = case['writes'][i]
                    grid = Grid(eta, [], h, wr['layout'], comm, dtype=dt)
                    cm.poison(grid.getAllData())
                    grid.loadFromFile(folder, None, name)
                    G = cm.global_array(shape, case['dtype'], salt=i)
                    want = cm.local(G, h.getLayout(wr['layout']))
                    if not cm.bits_equal(grid.getAllData(), want):
                        raise OracleFail('latest-checkpoint', dict(name=name, want_time=tmax, rank=rank,
                                                                   times=sorted(t for t, _ in cand)))
                return True
            M.run(case['P2'], case['sched'], reader)
    probes = {'kind_roundtrip': 1}
    if case['P1'] != case['P2']:
        probes['load_on_different_process_count'] = 1
    if any(w['t'] >= 1000000 for w in case['writes']):
        probes['time_7plus_digits'] = 1
    if any(w.get('via_restore') for w in case['writes']):
        probes['checkpoint_after_restore'] = 1
    return M.finish(extra=dict(nontrivial=max(case['P1'], case['P2']) > 1, probes=probes))


# ---------------------------------------------------------------------------
# (a2)+(b) restart set-up and checkpoint selection
# ---------------------------------------------------------------------------
def gen_restart(rng):
    ckw = phys.gen_constants(rng, amplified=False)
    if rng.random() < 0.4:
        ckw['vMin'] = rng.choice([-5.0, -9.0, 0.0])        # a velocity domain that is not symmetric about 0
    if rng.random() < 0.3:
        ckw['rMin'] = rng.choice([0.5, 1.5])
        ckw['zMin'] = rng.choice([-3.0, 2.0])
        ckw['zMax'] = ckw['zMin'] + 100.0
    npts = ckw['npts']
    g1 = rng.choice(phys.admissible_grids(npts, 9))
    g2 = rng.choice(phys.admissible_grids(npts, 9))
    nt = rng.randint(1, 5)
    times = rng.sample(TIMES, nt)
    if rng.random() < 0.5:
        k = rng.randint(0, len(TIMES) - 2)
        times = list({TIMES[k], TIMES[k + 1]} | set(times[:2]))
        rng.shuffle(times)
    writes = [dict(t=t, layout=rng.choice(['flux_surface', 'v_parallel', 'poloidal'])) for t in times]
    sched = simworld.random_sched(rng, 0)
    sched['poison'] = rng.random() < 0.5
    sched['glob_shuffle'] = rng.random() < 0.5
    c = dict(kind='restart', P=max(g1[0] * g1[1], g2[0] * g2[1]), ckw=ckw, g1=g1, g2=g2, writes=writes,
             want_layout=rng.choice(['flux_surface', 'v_parallel', 'poloidal', None]),
             explicit=rng.choice([None, None, rng.choice(times)]), save_mem=rng.random() < 0.5,
             sched=sched, nofiles=False, plot=False)
    r = rng.random()
    if r < 0.12:
        # a folder holding only the parameter file: the restart must initialise at t = 0
        c.update(nofiles=True, writes=[], explicit=None,
                 want_layout=rng.choice(['flux_surface', 'v_parallel', 'poloidal']))
    elif r < 0.27:
        c.update(plot=True, draw=rng.randrange(g2[0] * g2[1] + 1))
        c['P'] = max(c['P'], g2[0] * g2[1] + 1)
    return c


def run_restart(case, tape):
    M = Multi(ID, tape)
    ckw = case['ckw']
    npts = ckw['npts']
    P1 = case['g1'][0] * case['g1'][1]
    P2 = case['g2'][0] * case['g2'][1]
    with Scratch() as base:
        folder = os.path.join(base, 'sim')

        def writer(comm, rank):
            from pygyro.utilities.savingTools import setupSave
            f, constants = phys.setup_f(comm, ckw, case['writes'][0]['layout'] if case['writes'] else 'v_parallel')
            setupSave(constants, folder, comm, 0)
            # the directory is created by the root; nobody may write before it exists
            comm.Barrier()
            for i, wr in enumerate(case['writes']):
                if f.currentLayout != wr['layout']:
                    f.setLayout(wr['layout'])
                G = cm.global_array(npts, 'float64', salt=i)
                f.getAllData()[:] = cm.local(G, f.getLayout(wr['layout']))
                f.writeH5Dataset(folder, wr['t'])
            return True
        with phys.force_procs({P1: case['g1']}):
            res = M.run(P1, case['sched'], writer)
        if res['status'] == 'ok' and case.get('nofiles'):
            def reader0(comm, rank):
                from pygyro.initialisation.setups import setupFromFile
                try:
                    f, constants, t = setupFromFile(folder, comm=comm, layout=case['want_layout'],
                                                    allocateSaveMemory=case['save_mem'])
                except (simworld.SimAbort, OracleFail):
                    raise
                except Exception as e:   # noqa
                    # restarting from a folder without any checkpoint is not covered by the property:
                    # refusing (on every rank) is as good as initialising
                    raise Skip('%s: %s' % (type(e).__name__, e))
                if t != 0 or f.currentLayout != case['want_layout']:
                    raise OracleFail('restart-time', dict(got=int(t), want=0, layout=f.currentLayout))
                g, _ = phys.setup_f(comm, ckw, case['want_layout'])
                if not cm.bits_equal(f.getAllData(), g.getAllData()):
                    raise OracleFail('restart-field', dict(rank=rank, why='initialisation from a folder without checkpoints'))
                return True
            with phys.force_procs({P2: case['g2']}):
                M.run(P2, case['sched'], reader0)
        elif res['status'] == 'ok':
            final = {}
            for i, wr in enumerate(case['writes']):
                final[wr['t']] = i
            tmax = max(final)
            tsel = tmax if case['explicit'] is None else case['explicit']
            isel = final[tsel]
            plot = case.get('plot')

            def reader(comm, rank):
                from pygyro.initialisation.setups import setupFromFile
                kw = dict(comm=comm, allocateSaveMemory=case['save_mem'])
                if plot:
                    kw.update(plotThread=True, drawRank=case['draw'])
                if case['want_layout'] is not None:
                    kw['layout'] = case['want_layout']
                if case['explicit'] is not None:
                    kw['timepoint'] = case['explicit']
                f, constants, t = setupFromFile(folder, **kw)
                if t != tsel:
                    raise OracleFail('restart-time', dict(got=int(t), want=int(tsel), times=sorted(final),
                                                          explicit=case['explicit']))
                want_lay = case['want_layout'] or case['writes'][isel]['layout']
                if f.currentLayout != want_lay:
                    raise OracleFail('restart-layout', dict(got=f.currentLayout, want=want_lay))
                if plot and rank == case['draw']:
                    if f.getAllData().size != 0:
                        raise OracleFail('plot-rank-not-empty', dict(size=int(f.getAllData().size)))
                    return True
                G = cm.global_array(npts, 'float64', salt=isel)
                want = cm.local(G, f.getLayout(want_lay))
                if not cm.bits_equal(f.getAllData(), want):
                    raise OracleFail('restart-field', dict(rank=rank, t=int(t),
                                                           diff=cm.first_diff(f.getAllData(), want)))
                if list(constants.npts) != list(npts) or constants.dt != ckw['dt']:
                    raise OracleFail('restart-constants', dict(npts=list(constants.npts), dt=constants.dt))
                g_ref, _ = phys.setup_f(comm, ckw, want_lay) if not plot else (None, None)
                if g_ref is not None:
                    for d_, (a_, b_) in enumerate(zip(f.eta_grid, g_ref.eta_grid)):
                        if not cm.bits_equal(np.asarray(a_), np.asarray(b_)):
                            raise OracleFail('restart-grid-differs', dict(dim=d_, why='the restarted grid does not live on the coordinates of the run that wrote the checkpoint',
                                                                          got=[float(a_[0]), float(a_[-1])], want=[float(b_[0]), float(b_[-1])]))
                # loadFromFile into the same grid: latest and explicit
                lay_latest = case['writes'][final[tmax]]['layout']
                if f.currentLayout != lay_latest:
                    f.setLayout(lay_latest)
                cm.poison(f.getAllData())
                f.loadFromFile(folder)
                Gm = cm.global_array(npts, 'float64', salt=final[tmax])
                if not cm.bits_equal(f.getAllData(), cm.local(Gm, f.getLayout(lay_latest))):
                    raise OracleFail('latest-checkpoint', dict(rank=rank, want_time=int(tmax), times=sorted(final)))
                return True
            with phys.force_procs({P2: case['g2']}):
                M.run(P2 + (1 if plot else 0), case['sched'], reader)
    probes = {'kind_restart': 1}
    if case.get('nofiles'):
        probes['restart_folder_without_checkpoints'] = 1
    if case.get('plot'):
        probes['restart_with_plot_only_rank'] = 1
    if case['g1'] != case['g2']:
        probes['restart_on_different_grid'] = 1
    if case['writes'] and max(w['t'] for w in case['writes']) >= 1000000:
        probes['time_7plus_digits'] = 1
    if case['explicit'] is not None:
        probes['explicit_timepoint'] = 1
    return M.finish(extra=dict(nontrivial=max(P1, P2) > 1, probes=probes))


# ---------------------------------------------------------------------------
# (c) parameter file
# ---------------------------------------------------------------------------
SYMBOLIC = {   # derived value -> expression candidates (must evaluate to the stored value to 1 ulp)
    'zMax': ['R0*2*pi', '2*pi*R0'],
    'vMin': ['-vMax', '0-vMax'],
    'kTe': ['kTi'],
    'deltaRTe': ['deltaRTi'],
    'CTe': ['CTi'],
    'deltaRN0': ['2.0*deltaRTe', '2*deltaRTi'],
    'deltaR': ['4.0*deltaRN0/deltaRTi'],
}


def gen_params(rng):
    ckw = phys.gen_constants(rng, amplified=rng.random() < 0.5)
    if rng.random() < 0.3:
        ckw['rp'] = round(0.1 + 14.4 * rng.uniform(0.2, 0.8), 3)      # profile peak not at mid-radius
    if rng.random() < 0.35:
        # legal values that are falsy, negative or of unusual magnitude
        k = rng.choice(['kN0', 'kTi', 'kTe', 'eps', 'n', 'm', 'zMin', 'iotaVal', 'B0', 'deltaR'])
        ckw[k] = rng.choice({'n': [0, -3], 'm': [0, 1], 'zMin': [-5.0, 0.0], 'B0': [2.5, 0.5],
                             'deltaR': [0.5, 40.0], 'iotaVal': [0.0, -0.4, 1.3], 'eps': [0.0, 1e-9, 0.25],
                             'kN0': [0.0, 0.5], 'kTi': [0.0, 0.9], 'kTe': [0.0, 0.9]}[k])
    P = rng.choice([1, 2, 3, 4])
    sched = simworld.random_sched(rng, 0)
    return dict(kind='params', P=P, ckw=ckw, perm_seed=rng.randrange(1 << 30),
                symbolic=sorted(rng.sample(sorted(SYMBOLIC), rng.randint(0, len(SYMBOLIC)))),
                sym_choice=rng.randrange(4), drop_derived=rng.random() < 0.3, sched=sched)


def _public(constants):
    out = {}
    for k in dir(constants):
        v = getattr(constants, k)
        if not callable(v) and k[0] != '_':
            out[k] = v
    return out


def run_params(case, tape):
    import random
    M = Multi(ID, tape)
    ckw = case['ckw']
    with Scratch() as base:
        folder = os.path.join(base, 'sim')
        holder = {}

        def writer(comm, rank):
            from pygyro.utilities.savingTools import setupSave
            from pygyro.initialisation.constants import Constants
            constants = Constants()
            for k, v in ckw.items():
                setattr(constants, k, v)
            setupSave(constants, folder, comm, 0)
            return _public(constants)

        def post(w, results):
            holder['orig'] = results[0]
            return None
        res = M.run(1, case['sched'], writer, post)
        if res['status'] == 'ok':
            orig = holder['orig']
            path = os.path.join(folder, 'initParams.json')
            with seams.real_open(path) as fh:
                try:
                    data = json.load(fh)
                except Exception as e:   # noqa
                    data = None       # some other format: only the file as saved can be read back
            rs = random.Random(case['perm_seed'])
            expect = dict(orig)
            exact = set(orig)
            permute = data is not None
            if data is None:
                data = {}
            for key in (case['symbolic'] if permute else []):
                exprs = SYMBOLIC[key]
                expr = exprs[case['sym_choice'] % len(exprs)]
                # only substitute when the expression really denotes the stored value
                env = dict(orig)
                env['pi'] = np.pi
                try:
                    val = eval(expr, {}, env)
                except Exception:
                    continue
                if not np.isclose(val, orig[key], rtol=1e-15, atol=0):
                    continue
                data[key] = expr
                expect[key] = val
            if case['drop_derived'] and 'rp' in data and \
                    orig['rp'] == 0.5 * (orig['rMin'] + orig['rMax']):
                del data['rp']          # rp is derived from rMin/rMax
            keys = list(data)
            rs.shuffle(keys)
            path2 = os.path.join(folder, 'permuted.json')
            with seams.real_open(path2, 'w') as fh:
                json.dump({k: data[k] for k in keys}, fh)

            def reader(comm, rank):
                from pygyro.initialisation.constants import get_constants
                c1 = _public(get_constants(path))
                c2 = _public(get_constants(path2)) if permute else c1
                for name, got in (('saved', c1), ('permuted', c2)):
                    for k in sorted(expect):
                        a, b = got.get(k), expect[k]
                        if isinstance(b, float) or isinstance(a, float):
                            ok = (a == b) or (a is not None and b is not None and
                                              abs(a - b) <= 2.3e-16 * abs(b))
                        else:
                            ok = a == b or (isinstance(a, (list, tuple)) and list(a) == list(b))
                        if not ok:
                            raise OracleFail('params-differ', dict(file=name, key=k, got=repr(a), want=repr(b),
                                                                   order=keys if name == 'permuted' else None))
                return True
            M.run(case['P'], case['sched'], reader)
    probes = {'kind_params': 1, 'symbolic_keys': len(case['symbolic'])}
    if 'rp' in ckw:
        probes['explicit_rp'] = 1
    return M.finish(extra=dict(nontrivial=True, probes=probes))


# ---------------------------------------------------------------------------
# (d) restart continues the run: fullSimulation.main()
# ---------------------------------------------------------------------------
def gen_driver(rng, tier):
    npts = [rng.randint(5, 6), rng.randint(5, 6), 7, rng.randint(5, 6)]
    ckw = phys.gen_constants(rng, amplified=True, npts=npts)
    ckw['eps'] = rng.choice([1e-2, 1e-1])
    if rng.random() < 0.3:
        ckw['vMin'] = rng.choice([-5.0, -9.0])            # not symmetric about 0: restarts must rebuild the same domain
    N = rng.randint(0, 4)
    Mm = rng.randint(0, 4)
    if N + Mm == 0:
        Mm = 1
    s = rng.choice([1, 1, 2, 2, 3, 4, 5, 6])
    grids = phys.admissible_grids(npts, 6)
    g1 = rng.choice(grids)
    g2 = g1 if rng.random() < 0.5 else rng.choice(grids)
    stop = rng.choice(['tEnd', 'tEnd', 'budget', 'abort'])
    sched = simworld.random_sched(rng, 0)
    sched['poison'] = rng.random() < 0.5
    sched['glob_shuffle'] = rng.random() < 0.3
    return dict(kind='driver', P=max(g1[0] * g1[1], g2[0] * g2[1]), ckw=ckw, N=N, M=Mm, save=s, g1=g1, g2=g2,
                stop=stop, budget_frac=rng.uniform(0.15, 0.9), abort_frac=rng.random(), sched=sched,
                nofolder=(stop != 'abort' and rng.random() < 0.2))


def _write_constants(path, ckw):
    with seams.real_open(path, 'w') as fh:
        json.dump(ckw, fh)


def _driver_world(M, P, grid, sched, cwd, args):
    """Run fullSimulation.main() on P ranks with cwd and sys.argv set."""
    import fullSimulation
    old_argv = list(sys.argv)
    old_cwd = os.getcwd()
    sys.argv = ['fullSimulation.py'] + [str(a) for a in args]
    os.chdir(cwd)

    def rank_fn(comm, rank):
        fullSimulation.main()
        return True
    try:
        with phys.force_procs({P: grid}):
            return M.run(P, sched, rank_fn)
    finally:
        sys.argv = old_argv
        os.chdir(old_cwd)


def _ckpt_files(folder, name):
    """{time: path} of the checkpoints <name>_<time>.h5 in a folder (any zero padding)"""
    out = {}
    for fn in seams.real_glob(os.path.join(folder, name + '_*.h5')):
        stem = os.path.basename(fn)[len(name) + 1:].split('.')[0]
        try:
            out[int(stem)] = fn
        except ValueError:
            pass
    return out


def _new_run_folder(base, before):
    """the directory a driver run without -f created in its working directory"""
    new = [d for d in sorted(set(seams._real_listdir(base)) - set(before))
           if seams._real['isdir'](os.path.join(base, d)) and d != 'timing']
    for d in new:
        if _ckpt_files(os.path.join(base, d), 'grid'):
            return os.path.join(base, d)
    return os.path.join(base, new[0]) if new else None


def _read_h5(fn):
    """(data, recorded dimension order or None) of the single dataset of a checkpoint"""
    with seams.real_h5File(fn, 'r') as fh:
        names = [k for k in fh.keys()]
        ds = fh['dset'] if 'dset' in names else fh[names[0]]
        order = None
        if 'Layout' in ds.attrs:
            order = [int(x) for x in ds.attrs['Layout']]
        return np.array(ds), order


def _read_ckpt(folder, name, t):
    fn = _ckpt_files(folder, name).get(int(t))
    if fn is None:
        return None
    return _read_h5(fn)


def _list_times(folder):
    return sorted(_ckpt_files(folder, 'grid'))


def run_driver(case, tape):
    M = Multi(ID, tape)
    ckw = case['ckw']
    dt = ckw['dt']
    N, Mm, s = case['N'], case['M'], case['save']
    P1 = case['g1'][0] * case['g1'][1]
    P2 = case['g2'][0] * case['g2'][1]
    tEnd = (N + Mm) * dt
    big = 10 ** 30
    info = {}
    quiet = dict(case['sched'], abort_at=None)
    with Scratch() as base:
        cfile = os.path.join(base, 'constants.json')
        _write_constants(cfile, ckw)
        A = os.path.join(base, 'unsplit')
        B = os.path.join(base, 'split')
        fB = ['-f', B]
        if case.get('nofolder'):
            # first leg without -f: the root chooses a new folder in the cwd and broadcasts it
            fB = []
        # unsplit reference run on the first grid, never aborted, unlimited budget
        r = _driver_world(M, P1, case['g1'], quiet, base, [tEnd, big, '-c', cfile, '-f', A, '-s', s])
        if r['status'] == 'ok':
            before_leg1 = set(seams._real_listdir(base))
            # budget stops: a fraction of the measured (virtual) length of the reference run, so that the
            # wall-clock rule really ends the first leg early; per-rank clocks disagree on that scale
            span = max(10.0, r['sim_time'])
            budget = max(2, int(case.get('budget_frac', 0.5) * span))
            bsched = dict(quiet, clock_span=span)
            if bsched.get('clock') == 'exact' and case.get('budget_frac', 0.5) < 0.7:
                bsched['clock'] = 'all'
            # first leg
            if case['stop'] == 'tEnd':
                r1 = _driver_world(M, P1, case['g1'], quiet, base, [N * dt, big, '-c', cfile, '-s', s] + fB)
            elif case['stop'] == 'budget':
                r1 = _driver_world(M, P1, case['g1'], bsched, base, [tEnd, budget, '-c', cfile, '-s', s] + fB)
            else:
                sch = dict(case['sched'])
                sch['abort_at'] = max(1, int(case['abort_frac'] * r['events']))
                sch['abort_at_loop_boundary'] = True      # a kill between two steps: the stop the property speaks of
                r1 = _driver_world(M, P1, case['g1'], sch, base, [tEnd, big, '-c', cfile, '-f', B, '-s', s])
            if r1['status'] in ('ok', 'aborted') and case.get('nofolder'):
                B = _new_run_folder(base, before_leg1) or B
            if r1['status'] in ('ok', 'aborted'):
                info['leg1_status'] = r1['status']
                info['times_after_leg1'] = _list_times(B) if seams._real['isdir'](B) else []
                # second leg: restart in the same folder, possibly on another process grid
                before = {t: (seams._real['getmtime'](p) if 'getmtime' in seams._real else os.path.getmtime(p),
                              os.stat(p).st_ino) for t, p in _ckpt_files(B, 'grid').items()} \
                    if seams._real['isdir'](B) else {}
                _driver_world(M, P2, case['g2'], quiet, base, [tEnd, big, '-c', cfile, '-f', B, '-s', s])
                after = {t: (seams._real['getmtime'](p) if 'getmtime' in seams._real else os.path.getmtime(p),
                             os.stat(p).st_ino) for t, p in _ckpt_files(B, 'grid').items()}
                info['rewritten'] = sorted(t for t in before if t in after and after[t] != before[t])
                info['times_split'] = _list_times(B)
                info['times_unsplit'] = _list_times(A)
                info['final'] = {}
                for name in ('grid', 'phi'):
                    info['final'][name] = (_read_ckpt(A, name, tEnd), _read_ckpt(B, name, tEnd))

        def oracle():
            tol = 1e-12 if case['g1'] == case['g2'] else 1e-11      # observed: 0.0 in both cases
            lost_phi = []
            for name in ('grid', 'phi'):
                a, b = info['final'][name]
                if a is None:
                    raise OracleFail('final-checkpoint-missing', dict(run='unsplit', name=name, t=tEnd,
                                                                      times=info['times_unsplit']))
                if b is None and name == 'phi' and info.get('leg1_status') == 'aborted':
                    # a fail-stop between the grid and the phi file of the same step loses a
                    # derived output, not state: the property speaks of the restarted state
                    lost_phi.append(1)
                    continue
                if b is None:
                    raise OracleFail('final-checkpoint-missing', dict(run='split', name=name, t=tEnd,
                                                                      times=info['times_split'],
                                                                      after_leg1=info['times_after_leg1']))
                if a[1] != b[1] or a[0].shape != b[0].shape:
                    raise OracleFail('restart-diverged', dict(name=name, why='layout/shape of the final checkpoint'))
                e = phys.relerr(b[0], a[0])
                if not (e <= tol):
                    raise OracleFail('restart-diverged', dict(name=name, relerr=e, N=N, M=Mm, save=s,
                                                              stop=case['stop'], after_leg1=info['times_after_leg1']))
            t_resume = max(info['times_after_leg1']) if info['times_after_leg1'] else 0
            older = [t for t in info.get('rewritten', []) if t < t_resume]
            if older:
                # a run that resumed at the newest checkpoint never computes, hence never rewrites, an older one
                raise OracleFail('restart-did-not-resume', dict(rewritten=older, newest=t_resume,
                                                                after_leg1=info['times_after_leg1']))
            probes = {'kind_driver': 1, 'stop_' + case['stop']: 1, 'save_interval_%d' % s: 1}
            if case.get('nofolder'):
                probes['driver_without_folder_argument'] = 1
            t1 = info['times_after_leg1']
            resumed = bool(t1) and max(t1) > 0 and max(t1) < tEnd
            if resumed:
                probes['resumed_from_checkpoint'] = 1
                if (max(t1) // dt) % s == s - 1:
                    probes['first_restart_iteration_is_save_step'] = 1
            if case['g1'] != case['g2']:
                probes['restart_on_different_grid'] = 1
            if info.get('leg1_status') == 'aborted':
                probes['leg1_aborted'] = 1
            if lost_phi:
                probes['phi_file_lost_to_abort_between_files'] = 1
            if case['stop'] == 'budget' and t1 and max(t1) < tEnd:
                probes['budget_stopped_early'] = 1
            return dict(nontrivial=(max(P1, P2) > 1 or resumed), probes=probes)
        return M.finish(oracle=oracle if 'final' in info else None)


# ---------------------------------------------------------------------------
# (e) two jobs started in the same directory at the same time
# ---------------------------------------------------------------------------
def gen_twojobs(rng):
    jobs = []
    for tag in 'ab':
        ckw = phys.gen_constants(rng, amplified=False)
        ckw['eps'] = rng.choice([1e-6, 1e-3, 1e-2])
        g = rng.choice(phys.admissible_grids(ckw['npts'], 4))
        jobs.append(dict(ckw=ckw, grid=g, t=rng.choice(TIMES), layout=rng.choice(['flux_surface', 'v_parallel', 'poloidal']),
                         root=0, named=rng.random() < 0.2))
    sched = simworld.random_sched(rng, 0)
    sched['stall_p'] = rng.choice([0.0, 0.1, 0.3])
    Pa, Pb = [j['grid'][0] * j['grid'][1] for j in jobs]
    colors = [0] * Pa + [1] * Pb
    if rng.random() < 0.5:
        rng.shuffle(colors)
    return dict(kind='twojobs', P=Pa + Pb, jobs=jobs, colors=colors, sched=sched)


def run_twojobs(case, tape):
    """Each half of a split world is a job of its own: it sets up, asks setupSave for a folder of its own
    choice in the common working directory, writes a checkpoint and restarts from its folder.  Either a job
    is refused loudly (it lost the race for a folder name) or it finds its own constants and its own field."""
    from harness import SkipWorld
    M = Multi(ID, tape)
    P = case['P']
    jobs = case['jobs']
    colors = case['colors']
    with Scratch() as base:
        cwd = os.getcwd()
        os.chdir(base)

        def rank_fn(comm, rank):
            from pygyro.utilities.savingTools import setupSave
            from pygyro.initialisation.setups import setupFromFile
            col = colors[rank]
            job = jobs[col]
            sub = comm.Split(col, rank)
            Pj = job['grid'][0] * job['grid'][1]
            f, constants = phys.setup_f(sub, job['ckw'], job['layout'])
            lay = f.getLayout(job['layout'])
            f.getAllData()[:] *= (1.0 + 0.1 * cm.local(phys.smooth_noise(job['ckw']['npts'], 77 + col, amp=1.0), lay))
            try:
                folder = setupSave(constants, ('job_%d' % col) if job['named'] else None, sub, job['root'])
            except FileExistsError as e:
                raise SkipWorld('a job lost the race for its folder and was refused: %s' % e)
            sub.Barrier()
            f.writeH5Dataset(folder, job['t'])
            sub.Barrier()
            mine = np.array(f.getAllData(), copy=True)
            g, c2, t2 = setupFromFile(folder, comm=sub)
            if int(t2) != int(job['t']):
                raise OracleFail('restart-time', dict(job=col, got=int(t2), want=int(job['t']), folder=os.path.basename(str(folder))))
            from refs import reference as ref
            a, b = ref.constants_dict(constants), ref.constants_dict(c2)
            bad = sorted(k for k in a if repr(a[k]) != repr(b.get(k)))
            if bad:
                raise OracleFail('params-differ', dict(job=col, fields=bad[:6], folder=os.path.basename(str(folder)),
                                                       why='the restart found another job\'s parameters'))
            if g.currentLayout != job['layout'] or not cm.bits_equal(g.getAllData(), mine):
                raise OracleFail('restart-differs', dict(job=col, rank=rank, folder=os.path.basename(str(folder)),
                                                         why='the restart found another field than the one this job saved'))
            return dict(job=col, folder=os.path.basename(os.path.normpath(str(folder))))

        def post(w, results):
            fa = {r['folder'] for r in results if r['job'] == 0}
            fb = {r['folder'] for r in results if r['job'] == 1}
            if len(fa) != 1 or len(fb) != 1:
                raise OracleFail('setupSave-disagree', dict(a=sorted(fa), b=sorted(fb)))
            if fa == fb:
                raise OracleFail('folder-shared', dict(folder=sorted(fa), why='two jobs were given the same folder'))
            return dict(probes={'kind_twojobs': 1})
        try:
            with phys.force_procs({}):
                M.run(P, case['sched'], rank_fn, post)
        finally:
            os.chdir(cwd)
    return M.finish(extra=dict(nontrivial=True, probes={}))


def run(case, tape=None):
    k = case['kind']
    if k == 'twojobs':
        return run_twojobs(case, tape)
    if k == 'roundtrip':
        return run_roundtrip(case, tape)
    if k == 'restart':
        return run_restart(case, tape)
    if k == 'params':
        return run_params(case, tape)
    return run_driver(case, tape)


def shrink(case):
    k = case['kind']
    if k in ('roundtrip', 'restart'):
        if len(case['writes']) > 1:
            for i in range(len(case['writes'])):
                yield dict(case, writes=case['writes'][:i] + case['writes'][i + 1:])
        if k == 'restart':
            if case['g1'] != [1, 1]:
                yield dict(case, g1=[1, 1])
            if case['g2'] != [1, 1]:
                yield dict(case, g2=[1, 1])
            if case['explicit'] is not None:
                yield dict(case, explicit=None)
    elif k == 'params':
        if case['symbolic']:
            for i in range(len(case['symbolic'])):
                yield dict(case, symbolic=case['symbolic'][:i] + case['symbolic'][i + 1:])
        if case['P'] > 1:
            yield dict(case, P=1)
    elif k == 'driver':
        if case['g1'] != [1, 1] or case['g2'] != [1, 1]:
            yield dict(case, g1=[1, 1], g2=[1, 1], P=1)
        if case['g1'] != case['g2']:
            yield dict(case, g2=case['g1'])
        if case['stop'] != 'tEnd':
            yield dict(case, stop='tEnd')
        if case['N'] > 0:
            yield dict(case, N=case['N'] - 1)
        if case['M'] > 0 and case['N'] + case['M'] > 1:
            yield dict(case, M=case['M'] - 1)
        if case['save'] > 1:
            yield dict(case, save=case['save'] - 1)


_gen_plain = gen


def gen(rng, tier, idx):
    case = _gen_plain(rng, tier, idx)
    if case['kind'] in ('roundtrip', 'restart'):
        cm.maybe_bystanders(rng, case['sched'], case['P'])
    return case
