"""C06 - all ranks issue matching collectives; no layout change can deadlock
(DESIGN.md section 6).  The monitors of the simulated MPI are active in every
World of every check; this batch concentrates on arrival orders, per-rank hash
seeds, reductions for plotting, plot-only ranks and setup/saving."""
import hashlib
import itertools
import json
import os
import subprocess
import sys

import numpy as np

import simworld
from harness import execute, OracleFail, Skip, Scratch, VERIF
from checks import common as cm
from checks import c01, c03, c06_split

ID = 'C06'
HASHSEED_EVERY = {'quick': 300, 'thorough': 2000}     # one case in so many is also run under other string-hash seeds (harness._run_hashseed_invariant)
BUDGET = {'quick': 6000, 'thorough': 500000}
WALL = {'quick': 100, 'thorough': 1500}
CHUNK = 40
SELFTEST = {'quick': 14, 'thorough': 200}
REQUIRED_PROBES = ['hash_salted_names', 'hashseed_interpreters', 'plot_only_rank', 'setupSave_bcast', 'setupSave_root_nonzero', 'drawing_rank_nonzero', 'minmax_on_swapper_grid', 'kind_driver', 'kind_split', 'split_restart_without_checkpoint', 'arrival_order_P3_']
RULE = ("Every check: in 12% of the cases one or two bystander ranks share the simulated job and the code under test runs on world.Split(...); one case in HASHSEED_EVERY is re-run in fresh interpreters under other string-hash seeds and every rank's trace (collectives, data sent, result) must agree. "
        "Also: kind split (4%) = two simulations on the halves of a split (optionally Dup'ed) world; richer swapper groupings (route ties) in 40% of the swapper layout cases; complex minmax data that is exactly real on part of the domain (40%); plot gathers on a communicator with the ranks in reverse order (25%). "
        'case kinds (swarm-weighted): layout = LayoutHandler/LayoutSwapper construction + all-pairs '
        'transposes with layout names whose hash is salted per rank, under a systematic sweep of all '
        'P! consistent arrival orders for P <= 3 (quick) / 4 (thorough) and straggler/eager/bursty '
        'schedules otherwise; minmax = Grid.getMin/getMax (every branch, every drawing rank) and '
        'getBlockFromDict with ranges some ranks do not own; setup = setupCylindricalGrid with or '
        'without a plot-only rank, layout walk, reductions to the drawing rank, setupSave (any root, '
        'with/without folder), DiagnosticCollector collect/reduce; hashseed = the same layout worlds '
        'in fresh interpreters under different PYTHONHASHSEED, per-rank collective traces diffed. '
        'split = the world split (blocked / interleaved / reversed, optionally Dup) into two communicators, each '
        'half running its own programme (set-up + reductions + setupSave + restart from a folder without and '
        'with a checkpoint, or solver pipeline + diagnostics, or idle) on its own communicator; every collective '
        'must stay inside the communicator handed in, and each half must return exactly what it returns in a '
        'world of its own. '
        'Oracles: collective matching (operation, root, op, counts, datatypes), exact deadlock '
        'detection, buffer legality, identical route tables, all ranks finish or all refuse. '
        'non-trivial = P > 1 and at least one collective beyond communicator construction; distinct = '
        'distinct (kind, configuration, arrival-order class) tuples')
ASSUMPTIONS = ['plotting classes (matplotlib) are not run; their reductions are driven directly']


class SaltedStr(str):
    """A layout name whose hash differs per rank (every real MPI rank is its own
    interpreter with its own string-hash seed); equality is unchanged."""

    def __new__(cls, s, salt):
        o = str.__new__(cls, s)
        o._salt = salt
        return o

    def __hash__(self):
        # independent of PYTHONHASHSEED, so that a salted case replays in any interpreter
        import zlib
        return zlib.crc32(('%s|%d' % (str.__str__(self), self._salt)).encode()) * 2654435761 % (1 << 61)

    def __eq__(self, o):
        return str.__eq__(self, o)

    def __ne__(self, o):
        return str.__ne__(self, o)


def _arrival_sched(rng, P, idx, tier):
    """Systematic sweep of consistent arrival orders for small P, seeded otherwise."""
    s = simworld.random_sched(rng, 0)
    lim = 3 if tier == 'quick' else 4
    if P <= lim and rng.random() < 0.6:
        perms = list(itertools.permutations(range(P)))
        s['strategy'] = 'priority'
        s['priority_perm'] = list(perms[idx % len(perms)])
    else:
        s['strategy'] = rng.choice(['priority', 'straggler', 'uniform', 'bursty', 'lockstep'])
        if s['strategy'] == 'bursty':
            s['stall_p'] = rng.choice([0.05, 0.2])
    s['mode'] = rng.choice(['sync', 'eager', 'eager'])
    s['poison'] = rng.random() < 0.5
    return s


def gen(rng, tier, idx):
    r = rng.random()
    if idx < 6 and tier == 'quick' or idx < 40 and tier == 'thorough':
        kind = 'hashseed'
    elif r < 0.006:
        kind = 'driver'
    elif r < 0.046:
        kind = 'split'
    elif r < 0.40:
        kind = 'layout'
    elif r < 0.70:
        kind = 'minmax'
    else:
        kind = 'setup'
    if kind == 'split':
        return c06_split.gen_split(rng, tier, idx, _arrival_sched)
    if kind == 'layout':
        if rng.random() < 0.6:
            c = c01.gen_base(rng, tier, idx)
            c['mgr'] = 'handler'
            # favour sets rich in equal-length alternative routes
            if rng.random() < 0.5 and len(c['shape']) >= 3:
                c = _route_rich(rng, c)
            if rng.random() < 0.15:
                # an extent below the number of processes it is spread over (round 11): some ranks own nothing in
                # some layouts and something in others ("ranks owning empty blocks included")
                cand = [(o[j], p) for _, o in c['layouts'] for j, p in enumerate(c['nprocs']) if p > 1 and j < len(o)]
                if cand:
                    d, p = rng.choice(cand)
                    c['shape'] = list(c['shape'])
                    c['shape'][d] = rng.randint(1, p - 1)
                    c['underfull'] = True
        else:
            c = c03._gen_plain(rng, tier, idx, rich=rng.random() < 0.4)
            c['mgr'] = 'swapper'
        c['kind'] = 'layout'
        c['salted'] = rng.random() < 0.7
        c['sched'] = _arrival_sched(rng, c['P'], idx, tier)
        return c
    if kind == 'minmax':
        if rng.random() < 0.3:
            # Grid on the driver's LayoutSwapper (3-D): the coordinates gathered with the
            # blocks come from the swapper's current manager
            c = c03._gen_plain(rng, tier, idx)
            while c['family'] != 'driver' or len(c['shape']) != 3:
                c = c03._gen_plain(rng, tier, idx)
            c['mgr'] = 'swapper'
            c['layouts'] = [[n, o] for g in c['groups'] for n, o in g]
        else:
            c = c01.gen_base(rng, tier, idx)
            c['mgr'] = 'handler'
        c['kind'] = 'minmax'
        c['partly_real'] = rng.random() < 0.4
        c['gather_on_renumbered_comm'] = rng.random() < 0.25
        c['ops'] = []
        if c['dtype'] == 'int64':
            c['dtype'] = 'float64'      # Grid holds real or complex fields only
        names = [n for n, _ in c['layouts']]
        ndim = len(c['shape'])
        calls = []
        for _ in range(rng.randint(2, 8)):
            lay = rng.choice(names)
            root = rng.randrange(c['P'])
            t = rng.random()
            if t < 0.2:
                calls.append(dict(layout=lay, fn=rng.choice(['min', 'max']), root=root, axis=None, fix=None))
            elif t < 0.6:
                ax = rng.randrange(ndim)
                calls.append(dict(layout=lay, fn=rng.choice(['min', 'max']), root=root, axis=ax,
                                  fix=rng.randrange(c['shape'][ax])))
            elif t < 0.75:
                ax = rng.sample(range(ndim), 2)
                calls.append(dict(layout=lay, fn=rng.choice(['min', 'max']), root=root, axis=ax,
                                  fix=[rng.randrange(c['shape'][a]) for a in ax]))
            else:
                d = {}
                for a in rng.sample(range(ndim), rng.randint(0, ndim)):
                    n = c['shape'][a]
                    if rng.random() < 0.5:
                        d[str(a)] = rng.randrange(n)
                    else:
                        lo = rng.randrange(n)
                        d[str(a)] = [lo, rng.randint(lo + 1, n)]
                calls.append(dict(layout=lay, fn='block', root=root, sel=d))
        c['calls'] = calls
        c['sched'] = _arrival_sched(rng, c['P'], idx, tier)
        return c
    if kind == 'setup':
        P = rng.choice([1, 2, 2, 3, 4, 4, 6])
        plot = rng.random() < 0.5
        npts = [rng.randint(5, 8), rng.randint(5, 8), rng.randint(7, 9), rng.randint(5, 8)]
        total = P + (1 if plot else 0)
        walk = [rng.choice(['flux_surface', 'v_parallel', 'poloidal']) for _ in range(rng.randint(1, 4))]
        c = dict(kind='setup', P=total, nlayout=P, plot=plot, draw=rng.randrange(total) if plot else rng.randrange(P),
                 npts=npts, start=rng.choice(['flux_surface', 'v_parallel', 'poloidal']), walk=walk,
                 save_root=rng.randrange(total), save_folder=rng.choice([None, 'outdir']),
                 save_step=rng.randint(1, 4), ncollect=rng.randint(1, 4), preexisting=rng.choice([0, 0, 1, 3]),
                 fix_axis=rng.randrange(4))
        c['fix_val'] = rng.randrange(npts[c['fix_axis']])
        c['sched'] = _arrival_sched(rng, total, idx, tier)
        return c
    if kind == 'driver':
        from checks import phys
        npts = [5, 5, 7, 5]
        ckw = phys.gen_constants(rng, amplified=True, npts=npts)
        g = rng.choice([[1, 2], [2, 1], [1, 3], [3, 1], [2, 2]])
        P = g[0] * g[1]
        return dict(kind='driver', P=P, grid=g, ckw=ckw, steps=rng.choice([1, 1, 2]), save=rng.choice([1, 2]),
                    nofolder=rng.random() < 0.5, sched=_arrival_sched(rng, P, idx, tier))
    # hashseed
    which = idx % 3
    if which == 1:
        # the literal names the library itself uses
        sub = c01.gen_base(rng, tier, idx)
        nprocs = rng.choice([[2, 2], [1, 3], [3, 1], [2, 3]])
        std = [['flux_surface', [0, 3, 1, 2]], ['v_parallel', [0, 2, 1, 3]], ['poloidal', [3, 2, 1, 0]]]
        shape = cm.gen_shape(rng, 4, nprocs, [o for _, o in std])
        names = [n for n, _ in std]
        sub.update(nprocs=nprocs, P=int(np.prod(nprocs)), layouts=std, shape=shape, mgr='handler',
                   ops=[[a, b, bool(rng.random() < 0.5)] for a in names for b in names if a != b])
    elif which == 2:
        sub = c03._gen_plain(rng, tier, idx)
        while sub['family'] != 'driver':
            sub = c03._gen_plain(rng, tier, idx)
        sub['mgr'] = 'swapper'
    else:
        sub = c01.gen_base(rng, tier, idx)
        sub = _route_rich(rng, sub) if len(sub['shape']) >= 3 else sub
        sub['mgr'] = 'handler'
    return dict(kind='hashseed', P=sub['P'], sub=sub,
                hashseeds=[1, 2, 3, 77] if tier == 'quick' else [1, 2, 3, 5, 8, 13, 77, 4242],
                sched=simworld.default_sched(0))


def _route_rich(rng, c):
    """All cyclic shifts and neighbour swaps of one ordering: many equal-length routes."""
    ndim = len(c['shape'])
    base = list(range(ndim))
    rng.shuffle(base)
    orders = []
    for k in range(ndim):
        orders.append(base[k:] + base[:k])
    for i in range(ndim - 1):
        o = list(base)
        o[i], o[i + 1] = o[i + 1], o[i]
        orders.append(o)
    rng.shuffle(orders)
    orders = orders[:rng.randint(3, min(6, len(orders)))]
    names = cm.LAYOUT_NAMES[:len(orders)]
    rng.shuffle(names)
    c = dict(c)
    c['layouts'] = [[n, o] for n, o in zip(names, orders)]
    c['shape'] = cm.gen_shape(rng, ndim, c['nprocs'], orders)
    pairs = [(a, b) for a in names for b in names if a != b]
    if len(pairs) > 16:
        pairs = rng.sample(pairs, 16)
    c['ops'] = [[a, b, bool(rng.random() < 0.5)] for a, b in pairs]
    return c


# ---------------------------------------------------------------------------
def _salt_case(case, rank):
    """Copy of the case in which every layout name is a SaltedStr for this rank."""
    def S(n):
        return SaltedStr(n, rank)
    c = dict(case)
    if case.get('mgr') == 'swapper':
        c['groups'] = [[[S(n), o] for n, o in g] for g in case['groups']]
        c['start'] = S(case['start'])
        c['walk'] = [[S(n), b] for n, b in case['walk']]
    else:
        c['layouts'] = [[S(n), o] for n, o in case['layouts']]
        c['ops'] = [[S(a), S(b), u] for a, b, u in case['ops']]
    return c


def _routes(mgr):
    rm = getattr(mgr, '_route_map', None)
    try:
        if not isinstance(rm, dict):
            return None
        out = {}
        for a, d in rm.items():
            for b, v in d.items():
                if not (isinstance(a, str) and isinstance(b, str) and all(isinstance(x, str) for x in v)):
                    return None        # some other representation: rely on the collective traces and the data
                out.setdefault(str(a), {})[str(b)] = [str(x) for x in v]
        return out
    except Exception:   # noqa
        return None


def run_layout(case, tape):
    P = case['P']

    def rank_fn(comm, rank):
        w = simworld.current()[0]
        c = _salt_case(case, rank) if case.get('salted') else case
        if case['mgr'] == 'handler':
            mgr = c01.build_handler(comm, c)
            c01.do_transposes(mgr, c, w, rank)
            routes = _routes(mgr)
        else:
            mgr = c03.build_swapper(comm, c)
            dt = cm.np_dtype(c['dtype'])
            bsize = int(mgr.bufferSize)
            G = cm.global_array(c['shape'], c['dtype'], salt=1)
            cur = c['start']
            a = cm.poison(np.empty(bsize, dtype=dt))
            b = cm.poison(np.empty(bsize, dtype=dt))
            lay = mgr.getLayout(cur)
            a[:lay.size] = cm.local(G, lay).ravel()
            for step, (nxt, use_buf) in enumerate(c['walk']):
                buf = cm.poison(np.empty(bsize, dtype=dt)) if use_buf else None
                mgr.transpose(a, b, cur, nxt, buf)
                ld = mgr.getLayout(nxt)
                if not cm.bits_equal(b[:ld.size].reshape(ld.shape), cm.local(G, ld)):
                    raise OracleFail('wrong-data', dict(step=step, src=str(cur), dst=str(nxt), rank=rank))
                a, b = b, a
                cur = nxt
            routes = _routes(mgr)
        return dict(routes=routes)

    def post(w, results):
        r0 = results[0]['routes']
        for r, res in enumerate(results):
            if res['routes'] != r0:
                raise OracleFail('routes-differ', dict(ranks=[0, r], a=r0, b=res['routes']))
        ncoll = sum(1 for rec in w.log if rec[3] == 'coll' and rec[6] in ('Alltoall', 'Allgather', 'Alltoallv', 'Allgatherv'))
        probes = {}
        if case.get('salted'):
            probes['hash_salted_names'] = 1
            w.count_fault('hash-salt')
        if w.sched.get('priority_perm') is not None:
            probes['arrival_order_P%d_%s' % (P, ''.join(map(str, w.sched['priority_perm'])))] = 1
        return dict(nontrivial=(P > 1 and ncoll > 0), probes=probes, faults_extra=1)

    res = execute(ID, P, case['sched'], tape, rank_fn, post)
    if case.get('underfull') and res['status'] == 'violation' and str(res['kind']).startswith('exception:'):
        # as in C01: a shape with an extent below the process count may be refused by raising; blocking,
        # mismatched collectives, differing routes and silently wrong data are judged
        res.update(status='skip', kind='skip', nontrivial=False,
                   message='extent below the process count refused: ' + str(res.get('message'))[:200])
        res['probes'] = dict(res.get('probes') or {}, extent_below_process_count_refused=1)
        return res
    if case.get('underfull') and res['status'] == 'ok':
        res['probes'] = dict(res.get('probes') or {}, extent_below_process_count=1)
    if res['status'] == 'violation' and case.get('salted') and \
            str(res['kind']) in ('exception:KeyError', 'exception:AssertionError'):
        # a name lookup failed: the code may legitimately normalise layout names to plain str,
        # which a str subclass with its own hash cannot survive.  Only when the same case passes
        # with plain names is this a limitation of the salting trick, not a violation.
        plain = execute(ID, P, case['sched'], tape, (lambda comm, rank: _plain_rank_fn(case, comm, rank)), None)
        if plain['status'] == 'ok':
            res.update(status='skip', kind='skip', message='salted layout names not supported by this code path',
                       nontrivial=False)
            res['probes'] = dict(res.get('probes') or {}, salted_names_unsupported=1)
    return res


def _plain_rank_fn(case, comm, rank):
    w = simworld.current()[0]
    if case['mgr'] == 'handler':
        mgr = c01.build_handler(comm, case)
        c01.do_transposes(mgr, case, w, rank)
    else:
        c03.build_swapper(comm, case)
    return True


# ---------------------------------------------------------------------------
def run_minmax(case, tape):
    P = case['P']
    shape = case['shape']
    ndim = len(shape)
    dt = cm.np_dtype(case['dtype'])
    names = [n for n, _ in case['layouts']]

    def rank_fn(comm, rank):
        from pygyro.model.grid import Grid
        w = simworld.current()[0]
        if case.get('mgr') == 'swapper':
            h = c03.build_swapper(comm, dict(case, start=names[0]))
        else:
            h = c01.build_handler(comm, case)
        eta = [np.arange(n, dtype=float) for n in shape]
        G = cm.global_array(shape, case['dtype'], salt=5)
        if case.get('partly_real') and G.dtype.kind == 'c':
            # a complex field whose imaginary part vanishes exactly on part of the domain (a density right after the
            # v integral, a potential that is real on some ranks): what is sent must follow the dtype, not the values
            G = G.copy()
            G.imag[:max(1, shape[0] // 2)] = 0.0
        grid = Grid(eta, [], h, names[0], comm, dtype=dt)
        grid.getAllData()[:] = cm.local(G, h.getLayout(names[0]))
        out = []
        comm2 = None
        for call in case['calls']:
            if grid.currentLayout != call['layout']:
                grid.setLayout(call['layout'])
            lay = h.getLayout(call['layout'])
            k = len(h.nProcs)
            tab = ([int(x) for x in lay.dims_order], [int(x) for x in lay.starts], [int(x) for x in lay.ends],
                   [int(x) for x in lay.ranks[:k]])
            if call['fn'] in ('min', 'max'):
                f = grid.getMin if call['fn'] == 'min' else grid.getMax
                res = f(call['root'], call['axis'], call['fix'])
                out.append((tab, None if res is None else float(res)))
            else:
                d = {}
                for k, v in call['sel'].items():
                    d[int(k)] = v if isinstance(v, int) else range(v[0], v[1])
                gcomm = comm
                if case.get('gather_on_renumbered_comm'):
                    # the figure is gathered on another communicator than the one the grid was built on (same
                    # processes, other numbering): the root is a rank of the communicator handed in
                    if 'comm2' not in locals() or comm2 is None:
                        comm2 = comm.Split(0, comm.Get_size() - comm.Get_rank())
                    gcomm = comm2
                res = grid.getBlockFromDict(d, gcomm, call['root'])
                if res is not None:
                    lay_r, starts, mpi_data, sl = res
                    res = ([int(x) for x in starts], [[int(y) for y in x] for x in mpi_data],
                           np.array(sl, dtype=float))
                out.append((tab, res))
        return out

    def post(w, results):
        probes_extra = {}
        Gr = np.real(cm.global_array(shape, case['dtype'], salt=5)).astype(float)
        for ci, call in enumerate(case['calls']):
            root = call['root']
            if call['fn'] in ('min', 'max'):
                idx = [slice(None)] * ndim
                if call['axis'] is not None:
                    for a, fx in zip(np.atleast_1d(call['axis']), np.atleast_1d(call['fix'])):
                        idx[int(a)] = int(fx)
                sub = Gr[tuple(idx)]
                want = float(sub.min() if call['fn'] == 'min' else sub.max())
                for r, res in enumerate(results):
                    got = res[ci][1]
                    if r == root:
                        if got != want:
                            raise OracleFail('wrong-reduction', dict(call=call, got=got, want=want))
                    # (what the other ranks get back is not constrained by the property)
            else:
                holder_rank = (len(results) - 1 - root) if case.get('gather_on_renumbered_comm') else root
                got = results[holder_rank][ci][1]
                if got is None:
                    raise OracleFail('wrong-block', dict(call=call, why='root got None'))
                starts, mpi_data, sl = got
                sel = {int(k): (range(v, v + 1) if isinstance(v, int) else range(v[0], v[1]))
                       for k, v in call['sel'].items()}
                chunks = []
                for r, res in enumerate(results):
                    order, st, en, coords = res[ci][0]
                    slices = []
                    empty = False
                    for i, d in enumerate(order):
                        lo, hi = st[i], en[i]
                        if d in sel:
                            lo, hi = max(lo, sel[d].start), min(hi, sel[d].stop)
                        if hi <= lo:
                            empty = True
                        slices.append(slice(lo, hi))
                    chunks.append(np.zeros(0) if empty else Gr.transpose(order)[tuple(slices)].ravel())
                    if r < len(mpi_data) and list(mpi_data[r]) != list(coords):
                        probes_extra['gathered_coordinates_differ_from_layout_ranks'] = 1    # informational only
                want_all = np.concatenate(chunks) if chunks else np.zeros(0)
                # the packing of the gathered buffer is the plotting helper's business: the drawing rank must hold
                # exactly the selected values (every value of the global array is unique), each once
                if sl.size != want_all.size or not np.array_equal(np.sort(np.asarray(sl)), np.sort(want_all)):
                    raise OracleFail('wrong-block', dict(call=call, why='gathered values differ from the selected part of the global field',
                                                         got=int(sl.size), want=int(want_all.size)))
                if [int(x) for x in starts] == [int(x) for x in np.concatenate([[0], np.cumsum([c.size for c in chunks])[:-1]])]:
                    probes_extra['gathered_in_rank_order'] = 1
        probes = dict(probes_extra)
        if case.get('mgr') == 'swapper':
            probes['minmax_on_swapper_grid'] = 1
        for call in case['calls']:
            probes['call_' + call['fn']] = probes.get('call_' + call['fn'], 0) + 1
            if call['root'] != 0:
                probes['drawing_rank_nonzero'] = 1
        return dict(nontrivial=P > 1, probes=probes)

    return execute(ID, P, case['sched'], tape, rank_fn, post)


# ---------------------------------------------------------------------------
def run_setup(case, tape):
    P = case['P']

    def rank_fn(comm, rank):
        from pygyro.initialisation.setups import setupCylindricalGrid
        from pygyro.utilities.savingTools import setupSave
        w = simworld.current()[0]
        kw = dict(npts=list(case['npts']), layout=case['start'], comm=comm, allocateSaveMemory=True)
        if case['plot']:
            kw.update(plotThread=True, drawRank=case['draw'])
        try:
            grid, constants, t = setupCylindricalGrid(**kw)
        except RuntimeError as e:
            if cm.refusal(e):
                raise Skip(str(e))
            raise
        out = dict(size=int(grid.getAllData().size))
        vals = []
        for lay in case['walk']:
            grid.setLayout(lay)
            vals.append(grid.getMin(case['draw']))
            vals.append(grid.getMax(case['draw'], case['fix_axis'], case['fix_val']))
        out['vals'] = [None if v is None else float(v) for v in vals]
        folder = setupSave(constants, case['save_folder'], comm, case['save_root'])
        out['folder'] = folder
        # every member of the grid's communicator takes part in a checkpoint and in a gather for a
        # figure, also a rank that owns nothing (plot-only rank)
        comm.Barrier()
        grid.writeH5Dataset(folder, 7)
        grid.getBlockFromDict({case['fix_axis']: case['fix_val']}, comm, case['draw'])
        return out

    def post(w, results):
        folders = {r['folder'] for r in results}
        if len(folders) != 1:
            raise OracleFail('setupSave-disagree', dict(folders=sorted(map(str, folders))))
        f = folders.pop()
        if not (f and os.path.isdir(f) and os.listdir(f)):
            raise OracleFail('setupSave-missing', dict(folder=f))
        for r, res in enumerate(results):
            if case['plot'] and r == case['draw']:
                if res['size'] != 0:
                    raise OracleFail('plot-rank-not-empty', dict(rank=r, size=res['size']))
            elif res['size'] == 0:
                raise OracleFail('empty-block', dict(rank=r))
            if r == case['draw'] and any(v is None for v in res['vals']):
                raise OracleFail('wrong-reduction', dict(rank=r, draw=case['draw'], vals=res['vals']))
        probes = {}
        if case['plot']:
            probes['plot_only_rank'] = 1
        if case['save_folder'] is None:
            probes['setupSave_bcast'] = 1
            if os.path.basename(os.path.normpath(f)) in ['simulation_%d' % i for i in range(case.get('preexisting', 0))]:
                raise OracleFail('setupSave-folder', dict(got=f, why='a folder that existed before was reused'))
            if case.get('preexisting'):
                probes['setupSave_skips_existing_folders'] = 1
        if case['save_root'] != 0:
            probes['setupSave_root_nonzero'] = 1
        return dict(nontrivial=P > 1, probes=probes)

    with Scratch() as d:
        cwd = os.getcwd()
        os.chdir(d)
        for i in range(case.get('preexisting', 0)):
            os.makedirs(os.path.join(d, 'simulation_%d' % i))
        try:
            return execute(ID, P, case['sched'], tape, rank_fn, post)
        finally:
            os.chdir(cwd)


# ---------------------------------------------------------------------------
def trace_digest(case):
    """Run the layout world of `case` under a fixed schedule; return per-rank
    collective traces (used by the hash-seed sweep in fresh interpreters)."""
    P = case['P']
    sched = simworld.default_sched(1, strategy='lockstep')
    holder = {}

    def rank_fn(comm, rank):
        w = simworld.current()[0]
        holder['w'] = w
        if case.get('mgr') == 'swapper':
            mgr = c03.build_swapper(comm, case)
            dt = cm.np_dtype(case['dtype'])
            bsize = int(mgr.bufferSize)
            a = cm.poison(np.empty(bsize, dtype=dt))
            b = cm.poison(np.empty(bsize, dtype=dt))
            cur = case['start']
            for nxt, use_buf in case['walk']:
                buf = cm.poison(np.empty(bsize, dtype=dt)) if use_buf else None
                mgr.transpose(a, b, cur, nxt, buf)
                a, b = b, a
                cur = nxt
            return True
        mgr = c01.build_handler(comm, case)
        c01.do_transposes(mgr, case, w, rank)
        return True

    res = execute(ID, P, sched, None, rank_fn, None)
    w = holder.get('w')
    per_rank = {}
    if w is not None:
        for rec in w.log:
            if rec[3] == 'coll':
                per_rank.setdefault(rec[2], []).append(tuple(rec[4:8]))
    h = hashlib.sha256(repr(sorted(per_rank.items())).encode()).hexdigest()[:16]
    return dict(status=res['status'], kind=res['kind'], trace=h)


def run_hashseed(case, tape):
    sub = case['sub']

    def rank_fn(comm, rank):
        outs = []
        for hs in case['hashseeds']:
            env = dict(os.environ)
            env['PYTHONHASHSEED'] = str(hs)
            env['VERIF_NO_EVIDENCE'] = '1'
            from harness import HarnessProblem
            try:
                p = subprocess.run([sys.executable, '-W', 'ignore', os.path.join(VERIF, 'sim', 'hashchild.py')],
                                   input=json.dumps(sub), capture_output=True, text=True, env=env, timeout=300)
            except subprocess.TimeoutExpired:
                raise HarnessProblem('hash-seed child interpreter timed out')
            if p.returncode != 0:
                raise HarnessProblem('hash-seed child interpreter failed: ' + p.stderr[-800:])
            outs.append(json.loads(p.stdout.strip().splitlines()[-1]))
        return outs

    def post(w, results):
        outs = results[0]
        if any(o['status'] == 'skip' for o in outs):
            if not all(o['status'] == 'skip' for o in outs):
                raise OracleFail('hashseed-dependent', dict(outs=outs))
            raise Skip('layout set refused')
        if any(o['status'] == 'harness' for o in outs):
            from harness import HarnessProblem
            raise HarnessProblem('hash-seed child: %r' % [o for o in outs if o['status'] == 'harness'][:1])
        bad = [o for o in outs if o['status'] != 'ok']
        if bad:
            raise OracleFail('hashseed-run-failed', dict(outs=outs))
        if len({o['trace'] for o in outs}) != 1:
            raise OracleFail('hashseed-dependent', dict(hashseeds=case['hashseeds'], outs=outs))
        w.count_fault('hash-seed-interpreter', len(outs))
        return dict(nontrivial=sub['P'] > 1, probes={'hashseed_interpreters': len(outs)})

    return execute(ID, 1, case['sched'], tape, rank_fn, post)


def run_driver(case, tape):
    """fullSimulation.main() for one or two steps under the arrival-order sweep:
    only the monitors (matching, deadlock, buffers, h5 metadata) and the presence of the
    checkpoints are checked here; values are C05/C17/C18's business."""
    from harness import Multi
    from checks import c18
    M = Multi(ID, tape)
    ckw = case['ckw']
    tEnd = case['steps'] * ckw['dt']
    with Scratch() as base:
        cfile = os.path.join(base, 'constants.json')
        c18._write_constants(cfile, ckw)
        folder = os.path.join(base, 'out')
        before = set(os.listdir(base))
        args = [tEnd, 10 ** 30, '-c', cfile, '-s', case['save']] + ([] if case['nofolder'] else ['-f', folder])
        c18._driver_world(M, case['P'], case['grid'], case['sched'], base, args)
        if case['nofolder']:
            folder = c18._new_run_folder(base, before) or folder
        times = c18._list_times(folder) if os.path.isdir(folder) else []

    def oracle():
        if 0 not in times or tEnd not in times:
            raise OracleFail('checkpoint-missing', dict(times=times, want=[0, tEnd]))
        probes = {'kind_driver': 1}
        if case['sched'].get('priority_perm') is not None:
            probes['driver_arrival_order_P%d_%s' % (case['P'], ''.join(map(str, case['sched']['priority_perm'])))] = 1
        return dict(nontrivial=True, probes=probes)
    return M.finish(oracle=oracle)


def run(case, tape=None):
    k = case['kind']
    if k == 'driver':
        return run_driver(case, tape)
    if k == 'split':
        return c06_split.run_split(ID, case, tape)
    if k == 'layout':
        return run_layout(case, tape)
    if k == 'minmax':
        return run_minmax(case, tape)
    if k == 'setup':
        return run_setup(case, tape)
    return run_hashseed(case, tape)


def shrink(case):
    k = case['kind']
    if k == 'split':
        for c in c06_split.shrink_split(case):
            yield c
        return
    if k == 'layout' and case.get('mgr') == 'handler':
        for c in c01.shrink(case):
            yield c
    elif k == 'layout':
        for c in c03.shrink(case):
            yield c
    elif k == 'minmax':
        if len(case['calls']) > 1:
            for i in range(len(case['calls'])):
                yield dict(case, calls=[case['calls'][i]])
        for c in (c01.shrink(case) if case.get('mgr') != 'swapper' else []):
            c = dict(c)
            names = [n for n, _ in c['layouts']]
            if all(call['layout'] in names for call in case['calls']) and \
                    all(call['root'] < c['P'] for call in case['calls']) and c['shape'] == case['shape']:
                yield c
    elif k == 'setup':
        if case['nlayout'] > 1:
            n = case['nlayout'] - 1
            tot = n + (1 if case['plot'] else 0)
            yield dict(case, nlayout=n, P=tot, draw=min(case['draw'], tot - 1), save_root=min(case['save_root'], tot - 1))
        if case['plot'] and case['nlayout'] >= 1:
            yield dict(case, plot=False, P=case['nlayout'], draw=min(case['draw'], case['nlayout'] - 1),
                       save_root=min(case['save_root'], case['nlayout'] - 1))
        if len(case['walk']) > 1:
            yield dict(case, walk=case['walk'][:1])
        if case['save_folder'] is None:
            yield dict(case, save_folder='outdir')
