"""C03 - redistribution across differently distributed layout groups
(LayoutSwapper) preserves data (DESIGN.md section 6)."""
import itertools

import numpy as np

import simworld
from harness import execute, OracleFail, Skip
from checks import common as cm

ID = 'C03'
HASHSEED_EVERY = {'quick': 1000, 'thorough': 5000}     # one case in so many is also run under other string-hash seeds (harness._run_hashseed_invariant)
BUDGET = {'quick': 20000, 'thorough': 1000000}
WALL = {'quick': 100, 'thorough': 1500}
CHUNK = 50
REQUIRED_PROBES = ['gather_steps', 'alltoall_steps', 'equal_grid_extents', 'grid_extent_1', 'family_driver', 'family_random', 'several_2d_groups']
RULE = ("Every check: in 12% of the cases one or two bystander ranks share the simulated job and the code under test runs on world.Split(...); one case in HASHSEED_EVERY is re-run in fresh interpreters under other string-hash seeds and every rank's trace (collectives, data sent, result) must agree. "
        'Also: layout sets listed in any order, constructor start layout other than where the data is (30%), a second array moved on the same swapper between the steps (25%), arrays handed over as short-lived row views of a pool (6%; refusal tolerated), fresh str objects for the names. '
        'case = (3-D/4-D shape, 2-D process grid incl. equal extents and extents of 1, grouping of '
        'orderings into handlers with their process counts [driver family: the groupings built by '
        'fullSimulation.py and the upstream tests plus extra orderings; random family: 1-4 groups of '
        'kind 2-D / 1-D over direction 0 / 1-D over direction 1 / replicated], start layout, walk of '
        '1-8 transposes with or without buffer, dtype, schedule); every rank carries unique-valued '
        'data through the walk; after each step the block is compared bit for bit with the slice of '
        'the global array, replicas are compared across ranks, and blocks of one replica set must '
        'tile the array. non-trivial = accepted by the constructor, P > 1 and at least one Allgather '
        'or Alltoall exchanged; distinct = distinct (shape, grid, groups, walk) tuples')
ASSUMPTIONS = ['groupings outside the driver family that the constructor refuses on every rank are skipped; '
               'driver-family groupings must be accepted']

DRIVER = [
    # (groups, nprocs pattern) with 'A' = (n1,n2), 0 = n1, 1 = n2
    ([{'v_parallel_2d': [0, 2, 1], 'mode_solve': [1, 2, 0]}, {'v_parallel_1d': [0, 2, 1]},
      {'poloidal': [2, 1, 0]}], ['A', 0, 1]),
    ([{'v_parallel_2d': [0, 2, 1], 'mode_solve': [1, 2, 0]},
      {'poloidal': [2, 1, 0], 'poloidalTwist': [2, 0, 1]}, {'v_parallel_1d': [0, 2, 1]}], ['A', 1, 0]),
    ([{'flux_surface2': [0, 3, 1, 2], 'v_parallel': [0, 2, 1, 3], 'poloidal': [3, 2, 1, 0]},
      {'flux_surface1': [0, 3, 1, 2], 'z_surface': [2, 3, 1, 0], 'vr_contig1': [2, 1, 3, 0]}], ['A', 0]),
]


def _expand(pattern, grid):
    out = []
    for p in pattern:
        if p == 'A':
            out.append(list(grid))
        elif p == 'R':
            out.append(1)
        elif p == 'Arev':
            out.append([int(grid[1]), int(grid[0])])      # the same two communicators, listed in the other order
        else:
            out.append(int(grid[p]))
    return out


def gen(rng, tier, idx, rich=False):
    grid = [rng.choice([1, 2, 2, 3, 3, 4]), rng.choice([1, 2, 2, 3, 3, 4])]
    if rng.random() < 0.3:
        grid[1] = grid[0]                         # equal extents: ambiguous communicator choice
    while grid[0] * grid[1] > 12:
        grid[rng.randrange(2)] -= 1
    fr = rng.random()
    family = 'driver' if fr < 0.5 else ('two2d' if fr < 0.7 else 'random')
    if rich:
        family = 'two2d'          # many layouts in several groups: equally short alternative routes
    if family == 'two2d':
        # several groups distributed over both process directions: the constructor has to work out which
        # communicator carries which dimension in each group (by size; by a heuristic when the extents are equal)
        if rng.random() < 0.6:
            grid[1] = grid[0] = rng.choice([2, 2, 3])
        ndim = rng.choice([3, 4, 4])
        perms = [list(p) for p in itertools.permutations(range(ndim))]
        base = list(rng.choice(perms))
        names = iter(cm.LAYOUT_NAMES)
        groups, kinds = [], []
        for gi in range(rng.choice([3, 3, 4] if rich else [2, 2, 3])):
            g = {}
            for li in range(rng.choice([2, 3, 3] if rich else [1, 2, 2, 3])):
                r2 = rng.random()
                if r2 < 0.4:
                    o = list(base)                          # same ordering as a layout of another group
                elif r2 < 0.8:
                    o = list(base)
                    i, j = rng.sample(range(ndim), 2)
                    o[i], o[j] = o[j], o[i]
                else:
                    o = list(rng.choice(perms))
                g[next(names)] = o
                if rng.random() < 0.4:
                    base = list(o)
            groups.append(g)
            kinds.append('A' if gi == 0 else rng.choice(['A', 'A', 'Arev', 0, 1]))
        nprocs = _expand(kinds, grid)
        family = 'random'           # any constructor exception on every rank is a refusal
        two2d = True
    elif family == 'driver':
        groups, pattern = DRIVER[rng.choice([0, 0, 0, 1, 1, 2])]
        groups = [dict(g) for g in groups]
        ndim = len(next(iter(groups[0].values())))
        nprocs = _expand(pattern, grid)
    else:
        ndim = rng.choice([3, 3, 4])
        ng = rng.choice([1, 2, 2, 3, 3, 4])
        kinds = [rng.choice(['A', 'Arev', 0, 1, 'R']) for _ in range(ng)]
        kinds[0] = 'A'     # the most distributed group must span the communicator
        perms = [list(p) for p in itertools.permutations(range(ndim))]
        groups = []
        names = iter(cm.LAYOUT_NAMES)
        base = list(rng.choice(perms))
        for k in kinds:
            g = {}
            for _ in range(rng.choice([1, 1, 2, 2, 3])):
                try:
                    nm = next(names)
                except StopIteration:
                    break
                r = rng.random()
                if r < 0.35:
                    o = list(base)
                elif r < 0.8:
                    o = list(base)
                    i, j = rng.sample(range(ndim), 2)
                    o[i], o[j] = o[j], o[i]
                else:
                    o = list(rng.choice(perms))
                if rng.random() < 0.5:
                    base = list(o)
                g[nm] = o
            if g:
                groups.append(g)
        kinds = kinds[:len(groups)]
        nprocs = _expand(kinds, grid)
    order_shuffled = False
    if rng.random() < 0.35 and len(groups) > 1:
        # the constructor finds the most distributed set itself: the order in which the sets are listed is free
        perm = list(range(len(groups)))
        rng.shuffle(perm)
        if perm != sorted(perm):
            groups = [groups[i] for i in perm]
            nprocs = [nprocs[i] for i in perm]
            order_shuffled = True
    # shape: every rank owns >= 1 point wherever a layout is distributed
    need = [1] * ndim
    for g, n in zip(groups, nprocs):
        nl = [n] if isinstance(n, int) else n
        for o in g.values():
            for j, p in enumerate(nl):
                need[o[j]] = max(need[o[j]], max(grid))     # conservative: any communicator may be chosen
    shape = []
    for d in range(ndim):
        lo = need[d]
        r = rng.random()
        if r < 0.25:
            n = lo
        elif r < 0.55:
            n = lo + rng.randint(1, 3)
        else:
            n = rng.randint(lo, lo + 6)
        shape.append(int(n))
    names_all = [n for g in groups for n in g]
    # extra layouts in driver family groups
    start = rng.choice(names_all)
    walk = []
    cur = start
    for _ in range(rng.randint(1, 8)):
        nxt = rng.choice(names_all)
        walk.append([nxt, bool(rng.random() < 0.5)])
        cur = nxt
    if rng.random() < 0.3:
        walk.append([start, bool(rng.random() < 0.5)])
    sched = simworld.random_sched(rng, 0)
    sched['poison'] = rng.random() < 0.7
    # the layout named to the constructor need not be the one the first transposed array is in, and one swapper
    # may serve several arrays that sit in different layouts
    ctor_start = rng.choice(names_all) if rng.random() < 0.3 else None
    other = [[rng.choice(names_all), rng.choice(names_all)] for _ in range(len(walk))] if rng.random() < 0.25 else None
    return dict(P=grid[0] * grid[1], grid=grid, family=family, ctor_start=ctor_start, other=other, two2d=bool(locals().get('two2d')), order_shuffled=order_shuffled, pool=rng.random() < 0.06, groups=[[list(map(list, g.items()))][0] for g in groups],
                nprocs=nprocs, shape=shape, start=start, walk=walk,
                dtype=rng.choice(['float64', 'complex128']), sched=sched)


def build_swapper(comm, case):
    from pygyro.model.layout import LayoutSwapper
    eta = [np.arange(n, dtype=float) for n in case['shape']]
    layouts = [{n: list(o) for n, o in g} for g in case['groups']]
    nprocs = [n if isinstance(n, int) else list(n) for n in case['nprocs']]
    try:
        return LayoutSwapper(comm, layouts, nprocs, eta, case.get('ctor_start') or case['start'])
    except Exception as e:   # noqa
        if case['family'] == 'driver' and not case.get('order_shuffled'):
            raise        # the driver's own groupings, listed as the driver lists them, must be accepted
        raise Skip('%s: %s' % (type(e).__name__, e))


def run(case, tape=None):
    P = case['P']
    names = [n for g in case['groups'] for n, _ in g]
    dt = cm.np_dtype(case['dtype'])

    def rank_fn(comm, rank):
        w = simworld.current()[0]
        sw = build_swapper(comm, case)
        bsize = int(sw.bufferSize)
        G = cm.global_array(case['shape'], case['dtype'], salt=3)
        cur = case['start']
        lay = sw.getLayout(cur)
        if bsize < lay.size:
            raise OracleFail('buffer-size', dict(layout=cur, bufferSize=bsize, size=int(lay.size)))
        pool = None
        if case.get('pool'):
            # the fields live in the rows of one array and every call is handed freshly made row views
            # (short-lived objects): nothing may be remembered about an array object beyond the call
            pool = cm.poison(np.empty((3, bsize), dtype=dt))
            ia, ib = 0, 1
            a, b = pool[ia], pool[ib]
        else:
            a = cm.poison(np.empty(bsize, dtype=dt))
            b = cm.poison(np.empty(bsize, dtype=dt))
        a[:lay.size] = cm.local(G, lay).ravel()
        blocks = {}
        for step, (nxt, use_buf) in enumerate(case['walk']):
            ls = sw.getLayout(cur)
            ld = sw.getLayout(nxt)
            if bsize < ld.size:
                raise OracleFail('buffer-size', dict(layout=nxt, bufferSize=bsize, size=int(ld.size)))
            if case.get('other'):
                # another array on the same swapper is moved between two layouts of its own in between
                oa, ob = case['other'][step % len(case['other'])]
                la, lb = sw.getLayout(oa), sw.getLayout(ob)
                xa = cm.poison(np.empty(bsize, dtype=dt))
                xb = cm.poison(np.empty(bsize, dtype=dt))
                G2 = cm.global_array(case['shape'], case['dtype'], salt=50 + step)
                xa[:la.size] = cm.local(G2, la).ravel()
                sw.transpose(xa, xb, oa, ob)
                if not cm.bits_equal(xb[:lb.size].reshape(lb.shape), cm.local(G2, lb)):
                    raise OracleFail('wrong-data', dict(step=step, src=oa, dst=ob, rank=rank, why='second array on the same swapper'))
            want_src = cm.local(G, ls)
            if pool is not None:
                del a, b
                cm.poison(pool[ib])
                if use_buf:
                    cm.poison(pool[2])
                try:
                    sw.transpose(pool[ia], pool[ib], cm.fresh(cur), cm.fresh(nxt), pool[2] if use_buf else None)
                except (AssertionError, ValueError, TypeError) as e:
                    # arrays that are views of a larger array may be refused (the shipped code asserts that it owns
                    # the memory it reshapes); accepted, they must be handled correctly
                    from harness import SkipWorld
                    raise SkipWorld('views refused: %s' % type(e).__name__)
                a, b = pool[ia], pool[ib]
            else:
                buf = cm.poison(np.empty(bsize, dtype=dt)) if use_buf else None
                cm.poison(b)
                sw.transpose(a, b, cm.fresh(cur), cm.fresh(nxt), buf)
            want = cm.local(G, ld)
            got = b[:ld.size].reshape(ld.shape)
            if not cm.bits_equal(got, want):
                raise OracleFail('wrong-data', dict(step=step, src=cur, dst=nxt, buf=use_buf, rank=rank,
                                                    diff=cm.first_diff(got, want)))
            if use_buf and not cm.bits_equal(a[:ls.size].reshape(ls.shape), want_src):
                raise OracleFail('source-clobbered', dict(step=step, src=cur, dst=nxt, rank=rank))
            blocks[nxt] = ([int(x) for x in ld.starts], [int(x) for x in ld.ends], got.tobytes())
            # the swapper's view of "where the data is now" (used when gathering blocks for figures)
            k = len(sw.nProcs)
            if [int(x) for x in sw.nProcs] != [int(x) for x in ld.nprocs[:k]] or \
                    [int(x) for x in sw.mpiCoords] != [int(x) for x in ld.ranks[:k]] or \
                    int(sw.nDistributedDirections) != sum(1 for x in ld.nprocs if x > 1):
                # informational properties, not named by C03: recorded, not judged
                if rank == 0:
                    w.probe('manager_properties_differ_from_destination_layout')
            if pool is not None:
                ia, ib = ib, ia
            a, b = b, a
            cur = nxt
        tables = {}
        for n in names:
            l = sw.getLayout(n)
            tables[n] = ([int(x) for x in l.dims_order], [int(x) for x in l.starts], [int(x) for x in l.ends])
        return dict(blocks=blocks, tables=tables)

    def post(w, results):
        shape = case['shape']
        for n in names:
            order = results[0]['tables'][n][0]
            cover = np.zeros([shape[d] for d in order], dtype=np.int32)
            for res in results:
                _, st, en = res['tables'][n]
                cover[tuple(slice(s, e) for s, e in zip(st, en))] += 1
            if cover.min() != cover.max() or cover.min() < 1:
                raise OracleFail('partition', dict(layout=n, why='blocks do not cover the array a constant number of times',
                                                   min=int(cover.min()), max=int(cover.max())))
        # replicas agree
        for n in names:
            seen = {}
            for r, res in enumerate(results):
                if n in res['blocks']:
                    st, en, data = res['blocks'][n]
                    k = (tuple(st), tuple(en))
                    if k in seen and seen[k][1] != data:
                        raise OracleFail('replicas-differ', dict(layout=n, ranks=[seen[k][0], r]))
                    seen.setdefault(k, (r, data))
        ops = [rec[6] for rec in w.log if rec[3] == 'coll']
        ng = ops.count('Allgather') + ops.count('Allgatherv')
        na = ops.count('Alltoall') + ops.count('Alltoallv')
        probes = {}
        if ng:
            probes['gather_steps'] = ng // max(1, P)
        if na:
            probes['alltoall_steps'] = 1
        if case['grid'][0] == case['grid'][1] and P > 1:
            probes['equal_grid_extents'] = 1
        if 1 in case['grid'] and P > 1:
            probes['grid_extent_1'] = 1
        probes['family_' + case['family']] = 1
        if case.get('order_shuffled'):
            probes['sets_listed_in_another_order'] = 1
        if case.get('pool'):
            probes['arrays_are_short_lived_views'] = 1
        if case.get('ctor_start') or case.get('other'):
            probes['swapper_state_not_following_this_array'] = 1
        if case.get('two2d'):
            probes['several_2d_groups'] = 1
        return dict(nontrivial=(P > 1 and (ng + na) > 0), probes=probes)

    return execute(ID, P, case['sched'], tape, rank_fn, post)


def finding_key(case, res):
    return None


def shrink(case):
    for k in ('other', 'ctor_start', 'pool'):
        if case.get(k):
            yield dict(case, **{k: None})
    # shorter walks
    if len(case['walk']) > 1:
        yield dict(case, walk=case['walk'][:-1])
        for i in range(len(case['walk'])):
            yield dict(case, walk=case['walk'][:i] + case['walk'][i + 1:])
        for i in range(len(case['walk'])):
            # start directly before the failing step
            if i > 0:
                yield dict(case, start=case['walk'][i - 1][0], walk=case['walk'][i:])
    used = {case['start']} | {x[0] for x in case['walk']}
    # drop unused layouts / groups (random family only)
    if case['family'] == 'random':
        for gi, g in enumerate(case['groups']):
            for li, (n, o) in enumerate(g):
                if n not in used:
                    g2 = [x for x in g if x[0] != n]
                    groups = list(case['groups'])
                    nprocs = list(case['nprocs'])
                    if g2:
                        groups[gi] = g2
                    else:
                        del groups[gi]
                        del nprocs[gi]
                    if groups:
                        yield dict(case, groups=groups, nprocs=nprocs)
    if case['dtype'] != 'float64':
        yield dict(case, dtype='float64')
    for d, n in enumerate(case['shape']):
        if n > max(case['grid']):
            s = list(case['shape'])
            s[d] = n - 1
            yield dict(case, shape=s)


_gen_plain = gen


def gen(rng, tier, idx):
    case = _gen_plain(rng, tier, idx)
    if True:
        cm.maybe_bystanders(rng, case['sched'], case['P'])
    return case
